"""verif command line: check / replay / digests / show / selftest-determinism."""
import argparse
import json
import os
import sys

from .core import driver, worker
from .core.seeds import run_seed


def _env_int(name: str, default: int) -> int:
    try:
        return int(os.environ.get(name, default))
    except ValueError:
        return default


def cmd_check(a) -> int:
    tier = a.tier or os.environ.get("VERIF_TIER") or "quick"
    if tier not in ("quick", "thorough"):
        tier = "quick"
    return driver.check(a.prop, tier, a.seed, a.repo, workers=a.workers, runs_override=a.runs,
                        wall_override=a.wall, evidence=not a.no_evidence)


def cmd_digests(a) -> int:
    meta = driver.load_meta(a.prop)
    indices = [int(x) for x in a.indices.split(",") if x != ""]
    # group by pool: one interpreter can only carry one knob combination
    by_pool = {}
    for i in indices:
        by_pool.setdefault(meta.pool_of(run_seed(a.prop, a.seed, i), i), []).append(i)
    if a.pool is None and len(by_pool) > 1:
        import subprocess
        out = {}
        for pi, idxs in sorted(by_pool.items()):
            r = subprocess.run([sys.executable, "-m", "vsim.cli", "digests", a.prop, "--tier", a.tier,
                                "--seed", str(a.seed), "--repo", a.repo, "--pool", str(pi), "--indices",
                                ",".join(map(str, idxs))], capture_output=True, text=True,
                               cwd=driver.VERIF_DIR, timeout=600)
            if r.returncode != 0:
                sys.stderr.write(r.stderr)
                return 2
            out.update(json.loads(r.stdout.strip().splitlines()[-1]))
        print(json.dumps(out, sort_keys=True))
        return 0
    pi = a.pool if a.pool is not None else (next(iter(by_pool)) if by_pool else 0)
    worker.init_worker(a.repo, meta.META["pools"][pi], a.prop)
    worker._STATE["batch_seed"] = a.seed
    mod = worker.get_prop(a.prop)
    out = {}
    for i in by_pool.get(pi, []):
        rs = run_seed(a.prop, a.seed, i)
        out[str(i)] = mod.execute(mod.gen(rs, i, a.tier))["digest"]
    print(json.dumps(out, sort_keys=True))
    return 0


def cmd_replay(a) -> int:
    with open(a.path) as f:
        doc = json.load(f)
    prop = doc["property"]
    repo = a.repo or os.environ.get("VERIF_REPO") or "/repo"
    worker.init_worker(repo, doc.get("knobs", {}), prop)
    if doc.get("history"):
        # the violation needs what earlier runs left behind in the process: execute them first
        mod = worker.get_prop(prop)
        for t in doc["history"]:
            try:
                mod.execute(t)
            except Exception:  # noqa: BLE001
                pass
        print(f"[replay] executed {len(doc['history'])} predecessor run(s)")
    res = worker.execute_trace(prop, doc["trace"])
    key = doc["violation"]["key"]
    v = worker.violation_matches(res, key)
    others = [worker.sig_key(x) for x in res.get("violations", [])]
    if v is not None:
        same = (doc.get("log_digest") in (None, res["digest"]))
        print(f"[replay] reproduced oracle={v['oracle']} sig={json.dumps(v.get('sig', {}), sort_keys=True)} "
              f"digest_identical={same}")
        print(f"[replay] detail: {json.dumps(v.get('detail'))[:1500]}")
        if a.events:
            for e in res.get("events", []):
                print(json.dumps(e, sort_keys=True))
        print(f"VIOLATION property={prop} replay={os.path.abspath(a.path)}")
        return 1
    print(f"[replay] violation class {key} NOT reproduced; violations seen: {others}")
    return 0


def cmd_show(a) -> int:
    meta = driver.load_meta(a.prop)
    rs = run_seed(a.prop, a.seed, a.index)
    pi = meta.pool_of(rs, a.index)
    worker.init_worker(a.repo, meta.META["pools"][pi], a.prop)
    worker._STATE["batch_seed"] = a.seed
    mod = worker.get_prop(a.prop)
    trace = mod.gen(rs, a.index, a.tier)
    res = mod.execute(trace)
    print(json.dumps({"run_seed": rs, "pool": meta.META["pools"][pi], "trace": trace}, indent=1,
                     default=str)[:a.limit])
    for e in res.get("events", [])[:a.nevents]:
        print(json.dumps(e, sort_keys=True))
    res.pop("events", None)
    res["states"] = len(res.get("states", ()))
    res["sets"] = {k: len(v) for k, v in res.get("sets", {}).items()}
    print(json.dumps(res, indent=1, default=str)[:a.limit])
    return 0


def cmd_selftest_determinism(a) -> int:
    """>=N run seeds x 2 executions: pool workers vs fresh interpreter with another hash seed."""
    import concurrent.futures as cf
    props = a.props.split(",") if a.props else list(worker.PROP_MODULES)
    bad = 0
    for prop in props:
        try:
            meta = driver.load_meta(prop)
        except ModuleNotFoundError:
            continue
        idxs = list(range(a.n))
        for nworkers in (1, 16):
            pools = driver.Pools(prop, a.repo, meta.META["pools"], nworkers)
            got = {}
            per_pool = {}
            for i in idxs:
                per_pool.setdefault(meta.pool_of(run_seed(prop, a.seed, i), i), []).append(i)
            futs = []
            for pi, ii in per_pool.items():
                step = max(1, len(ii) // max(1, pools.sizes[pi]))
                for j in range(0, len(ii), step):
                    futs.append(pools.pools[pi].submit(worker.run_chunk, prop, a.seed, a.tier,
                                                       ii[j:j + step], True, 600.0))
            for f in cf.as_completed(futs):
                got.update(f.result()["digest_by_index"])
            pools.shutdown()
            fresh = {}
            step = 50
            for j in range(0, len(idxs), step):
                fresh.update(driver.fresh_digests(prop, a.repo, a.seed, a.tier, idxs[j:j + step],
                                                  str(1000 + nworkers)))
            mism = [i for i in idxs if got.get(i) != fresh.get(i)]
            print(f"[selftest-determinism] {prop} workers={nworkers} seeds={len(idxs)} mismatches={len(mism)} {mism[:10]}",
                  flush=True)
            bad += len(mism)
    return 2 if bad else 0


def main(argv=None) -> int:
    ap = argparse.ArgumentParser(prog="verif")
    sub = ap.add_subparsers(dest="cmd", required=True)

    def common(p):
        p.add_argument("--tier", default=None)
        p.add_argument("--seed", type=int, default=_env_int("VERIF_SEED", 0))
        p.add_argument("--repo", default=os.environ.get("VERIF_REPO", "/repo"))

    p = sub.add_parser("check")
    p.add_argument("prop")
    common(p)
    p.add_argument("--workers", type=int, default=_env_int("VERIF_WORKERS", 16))
    p.add_argument("--runs", type=int, default=None)
    p.add_argument("--wall", type=float, default=None)
    p.add_argument("--no-evidence", action="store_true",
                   help="do not rewrite evidence/<id>.json (used when the check is pointed at a scratch tree)")
    p.set_defaults(fn=cmd_check)

    p = sub.add_parser("digests")
    p.add_argument("prop")
    common(p)
    p.add_argument("--indices", required=True)
    p.add_argument("--pool", type=int, default=None)
    p.set_defaults(fn=cmd_digests, tier="quick")

    p = sub.add_parser("replay")
    p.add_argument("path")
    p.add_argument("--repo", default=None)
    p.add_argument("--events", action="store_true")
    p.set_defaults(fn=cmd_replay)

    p = sub.add_parser("show")
    p.add_argument("prop")
    common(p)
    p.add_argument("--index", type=int, default=0)
    p.add_argument("--limit", type=int, default=6000)
    p.add_argument("--nevents", type=int, default=60)
    p.set_defaults(fn=cmd_show)

    p = sub.add_parser("selftest-determinism")
    common(p)
    p.add_argument("--props", default=None)
    p.add_argument("-n", type=int, default=200)
    p.set_defaults(fn=cmd_selftest_determinism)

    a = ap.parse_args(argv)
    if getattr(a, "tier", None) is None and a.cmd != "check":
        a.tier = "quick"
    # every scratch file of this command (and of the workers and sub-commands it starts) lives below one
    # directory that is removed when the command ends, whatever happens to the workers
    import shutil
    import tempfile
    outer = os.environ.get("VSIM_TMP_ROOT")
    root = None
    if not outer:
        root = tempfile.mkdtemp(prefix="vsim-cmd-")
        os.environ["VSIM_TMP_ROOT"] = root
        os.environ["TMPDIR"] = root
        tempfile.tempdir = root
    try:
        return a.fn(a)
    finally:
        if root is not None:
            shutil.rmtree(root, ignore_errors=True)


if __name__ == "__main__":
    sys.exit(main())
