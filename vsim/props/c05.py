"""C05 - decoding arbitrary bytes is total: it returns or raises DecodeError.

Two layers of injection feed the real decode stack:
 * PDU level: valid PDUs of a layer are cut at every byte (EOF at an arbitrary point),
   single bytes are substituted, chunks duplicated / removed / appended, plus short
   strings over a reduced alphabet and random strings; each is pushed through
   DiagLayer.decode / decode_response / DiagService.decode_message / Request.decode /
   Response.decode.
 * conversation level: tester and ECU talk over the simulated CAN bus with the frame
   fault injector on; every telegram the real reassembler reports goes to the real
   snoop.handle_telegram; after the faults stop a well-formed exchange must be decoded
   and printed.
Descriptions: the shipped somersault databases (every layer) and the zoo layers.
"""
import io
import os
import random
import sys
from typing import Any, Dict, List, Optional, Tuple

from ..can import world as W
from ..core import worker
from ..core.budget import HangVerdict, InstrBudget
from ..core.evlog import EventLog, exc_sig, exc_site
from ..core.envsim import environment
from ..core.seeds import Streams, h64, weighted
from ..core.shrink import ShrinkBudget, ddmin_list, shrink_each

META: Dict[str, Any] = {
    "id": "C05",
    "level": "exploration",
    "pools": [{"backend": "c"}, {"backend": "py"}, {"backend": "c", "optimize": 1}],
    "tiers": {
        "quick": {"runs": 7000, "chunk": 60, "wall": 240, "chunk_wall": 400},
        "thorough": {"runs": 400000, "chunk": 150, "wall": 1200, "chunk_wall": 900},
    },
    "selftest_runs": 4,
    "rule": ("one run = one diagnostic layer (somersault or zoo) and either (pdu) 1-3 valid base PDUs with "
             "every strict prefix, seeded single-byte substitutions at every position from a reduced "
             "alphabet, extensions, 7-byte chunk duplication/removal, short strings over {SIDs,00,7F,FF} and "
             "random strings, each pushed through 3-8 decode entry points, or (conv) a tester/ECU "
             "conversation carried over the simulated CAN bus with frame faults, reassembled by the real "
             "state machine and handed to the real snoop.handle_telegram. Non-trivial: at least one "
             "decode call returned a result AND at least one raised DecodeError in the run. "
             "Distinct = distinct event-log digest."),
    "state_measure": "(layer, entry point kind, outcome class, raising site) tuples",
    "sim_time_note": "conversation runs: 0.5 ms per CAN frame; PDU-level runs have no time",
    "components": {
        "real": ["DiagLayer.decode / decode_response", "DiagService.decode_message", "Request.decode / Response.decode",
                 "the whole parameter / DOP / diag-coded-type decode stack", "IsoTpStateMachine",
                 "odxtools.cli.snoop.handle_telegram", "PDX loader (somersault)"],
        "stub": ["transport (PDU mutator / CAN bus with fault injector)", "tester and ECU (pick PDUs from a corpus of valid PDUs)"],
    },
    "assumptions": ["strict mode (the default); lenient mode belongs to C17",
                    "zoo layers are non-degenerate (every field item occupies at least one byte)"],
}

N_ZOO = 14
INSTR_LIMIT = 3_000_000

STATE: Dict[str, Any] = {}


def pool_of(rs: int, index: int) -> int:
    return h64("pool", rs) % 3


# ------------------------------------------------------------------ ground truth walk
def fixed_len(co) -> Optional[int]:
    """Own walk: byte length of a coding object all of whose parameters are fixed-width
    kinds, else None.  Independent of get_static_bit_length()."""
    from odxtools.dataobjectproperty import DataObjectProperty
    from odxtools.dtcdop import DtcDop
    from odxtools.parameters.codedconstparameter import CodedConstParameter
    from odxtools.parameters.matchingrequestparameter import MatchingRequestParameter
    from odxtools.parameters.nrcconstparameter import NrcConstParameter
    from odxtools.parameters.physicalconstantparameter import PhysicalConstantParameter
    from odxtools.parameters.reservedparameter import ReservedParameter
    from odxtools.parameters.valueparameter import ValueParameter
    from odxtools.standardlengthtype import StandardLengthType
    from odxtools.structure import Structure

    need = [0]  # last byte that actually holds a described parameter value (BYTE-SIZE padding excluded)

    def walk(params, origin: int) -> Optional[int]:
        cursor = origin
        end = origin
        for p in params:
            pos = cursor if p.byte_position is None else origin + p.byte_position
            bitpos = p.bit_position or 0
            if isinstance(p, (CodedConstParameter, NrcConstParameter)):
                dct = p.diag_coded_type
                if not isinstance(dct, StandardLengthType):
                    return None
                nbytes = (dct.bit_length + bitpos + 7) // 8
            elif isinstance(p, ReservedParameter):
                nbytes = (p.bit_length + bitpos + 7) // 8
            elif isinstance(p, MatchingRequestParameter):
                nbytes = p.byte_length
            elif isinstance(p, (ValueParameter, PhysicalConstantParameter)):
                dop = p.dop
                if isinstance(dop, (DataObjectProperty, DtcDop)):
                    dct = dop.diag_coded_type
                    if not isinstance(dct, StandardLengthType):
                        return None
                    nbytes = (dct.bit_length + bitpos + 7) // 8
                elif isinstance(dop, Structure):
                    sub = walk(dop.parameters, pos)
                    if sub is None:
                        return None
                    nbytes = sub - pos
                    if dop.byte_size is not None:
                        # a structure with BYTE-SIZE occupies exactly that many bytes
                        if nbytes > dop.byte_size:
                            return None
                        nbytes = dop.byte_size
                else:
                    return None
            else:
                return None
            cursor = pos + nbytes
            end = max(end, cursor)
            if not (isinstance(p, (ValueParameter, PhysicalConstantParameter)) and isinstance(p.dop, Structure)):
                need[0] = max(need[0], cursor)
        return end

    if walk(co.parameters, 0) is None:
        return None
    return need[0]


def required_len(co, pdu: bytes) -> Optional[int]:
    """Own reference walk over a coding object and a concrete PDU: the number of bytes the PDU must have
    so that every parameter it *announces* is present (fixed-width parameters, structures, static fields,
    and dynamic-length fields whose item count is read from the PDU).  None if the layout contains
    anything else.  Independent of the library's decoder."""
    from odxtools.dataobjectproperty import DataObjectProperty
    from odxtools.dtcdop import DtcDop
    from odxtools.dynamiclengthfield import DynamicLengthField
    from odxtools.odxtypes import DataType
    from odxtools.parameters.codedconstparameter import CodedConstParameter
    from odxtools.parameters.matchingrequestparameter import MatchingRequestParameter
    from odxtools.parameters.nrcconstparameter import NrcConstParameter
    from odxtools.parameters.physicalconstantparameter import PhysicalConstantParameter
    from odxtools.parameters.reservedparameter import ReservedParameter
    from odxtools.parameters.valueparameter import ValueParameter
    from odxtools.standardlengthtype import StandardLengthType
    from odxtools.staticfield import StaticField
    from odxtools.structure import Structure

    class Unknown(Exception):
        pass

    need = [0]

    def struct_extent(st, pos: int) -> int:
        """returns the cursor after the structure; updates need[0]"""
        end = walk(st.parameters, pos)
        if st.byte_size is not None:
            if end - pos > st.byte_size:
                raise Unknown()
            return pos + st.byte_size
        return end

    def walk(params, origin: int) -> int:
        cursor = origin
        end = origin
        for p in params:
            pos = cursor if p.byte_position is None else origin + p.byte_position
            bitpos = p.bit_position or 0
            if isinstance(p, (CodedConstParameter, NrcConstParameter)):
                dct = p.diag_coded_type
                if not isinstance(dct, StandardLengthType):
                    raise Unknown()
                cursor = pos + (dct.bit_length + bitpos + 7) // 8
                need[0] = max(need[0], cursor)
            elif isinstance(p, ReservedParameter):
                cursor = pos + (p.bit_length + bitpos + 7) // 8
                need[0] = max(need[0], cursor)
            elif isinstance(p, MatchingRequestParameter):
                cursor = pos + p.byte_length
                need[0] = max(need[0], cursor)
            elif isinstance(p, (ValueParameter, PhysicalConstantParameter)):
                dop = p.dop
                if isinstance(dop, (DataObjectProperty, DtcDop)):
                    dct = dop.diag_coded_type
                    if not isinstance(dct, StandardLengthType):
                        raise Unknown()
                    cursor = pos + (dct.bit_length + bitpos + 7) // 8
                    need[0] = max(need[0], cursor)
                elif isinstance(dop, Structure):
                    cursor = struct_extent(dop, pos)
                elif isinstance(dop, StaticField):
                    c = pos
                    for _ in range(dop.fixed_number_of_items):
                        struct_extent(dop.structure, c)
                        c += dop.item_byte_size
                    cursor = c
                elif isinstance(dop, DynamicLengthField):
                    dn = dop.determine_number_of_items
                    cdct = dn.dop.diag_coded_type
                    if not (isinstance(cdct, StandardLengthType) and cdct.base_data_type == DataType.A_UINT32
                            and cdct.bit_length in (8, 16) and not dn.bit_position and cdct.bit_mask is None
                            and cdct.base_type_encoding is None and cdct.is_highlow_byte_order_raw in (None, True)
                            and type(dn.dop).__name__ == "DataObjectProperty"
                            and type(dn.dop.compu_method).__name__ == "IdenticalCompuMethod"):
                        raise Unknown()
                    cpos = pos + dn.byte_position
                    cbytes = cdct.bit_length // 8
                    need[0] = max(need[0], cpos + cbytes)
                    if len(pdu) < cpos + cbytes:
                        # the count itself is missing: everything up to it is needed, nothing more is known
                        return max(end, cpos + cbytes)
                    n = int.from_bytes(pdu[cpos:cpos + cbytes], "big")
                    c = pos + dop.offset
                    for _ in range(n):
                        c = struct_extent(dop.structure, c)
                        if c > 70000:
                            break
                    cursor = c
                else:
                    raise Unknown()
            else:
                raise Unknown()
            end = max(end, cursor)
        return end

    try:
        walk(co.parameters, 0)
    except Unknown:
        return None
    return need[0]


# ------------------------------------------------------------------ worker state
def worker_init() -> None:
    import odxtools
    from odxtools.exceptions import DecodeError
    STATE["DecodeError"] = DecodeError
    repo = worker.repo_dir()
    layers: Dict[str, Any] = {}
    for fname in ("somersault.pdx", "somersault_modified.pdx"):
        p = os.path.join(repo, "examples", fname)
        if os.path.exists(p):
            db = odxtools.load_pdx_file(p)
            for dl in db.diag_layers:
                layers[f"{fname.split('.')[0]}:{dl.short_name}"] = dl
    from ..zoo.layers import MATRIX_KINDS, build_matrix_layer, build_zoo_layer, matrix_examples
    zoo_truth: Dict[str, Dict[str, Any]] = {}
    for z in range(N_ZOO):
        layer, truth, used = build_zoo_layer(z)
        layers[f"zoo:{z}"] = layer
        zoo_truth[f"zoo:{z}"] = truth
    for kind in MATRIX_KINDS:
        layers[f"zoo:m_{kind}"] = build_matrix_layer(kind)
        zoo_truth[f"zoo:m_{kind}"] = {"examples": matrix_examples(kind)}
    STATE["layers"] = layers
    STATE["layer_names"] = sorted(layers)
    STATE["zoo_truth"] = zoo_truth
    STATE["budget"] = InstrBudget(worker.pkg_dir())
    STATE["budget"].install()
    build_corpus(budget=STATE["budget"])


def coding_objects(layer) -> List[Tuple[Any, Any, str]]:
    out = []
    for svc in layer.services:
        if svc.request is not None:
            out.append((svc, svc.request, "rq"))
        for r in svc.positive_responses:
            out.append((svc, r, "rs"))
        for r in svc.negative_responses:
            out.append((svc, r, "ng"))
    return out


def build_corpus(ascii_tails: bool = False, budget: Optional[InstrBudget] = None) -> None:
    """Valid PDUs per layer: encode with defaults where possible, else decode-guided
    random search (every successful decode yields a valid PDU).  Fixed seed."""
    DecodeError = STATE["DecodeError"]
    corpus: Dict[str, List[Dict[str, Any]]] = {}
    fixed: Dict[str, Dict[str, Optional[int]]] = {}
    with W.quiet():
        for lname in STATE["layer_names"]:
            layer = STATE["layers"][lname]
            r = random.Random(h64("corpus", lname))
            ents: List[Dict[str, Any]] = []
            fl: Dict[str, Optional[int]] = {}
            cos = coding_objects(layer)
            seen_co = set()
            for svc, co, kind in cos:
                key = (svc.short_name, co.short_name)
                if key in seen_co:
                    continue
                seen_co.add(key)
                try:
                    fl[co.short_name] = fixed_len(co)
                except Exception:  # noqa: BLE001
                    fl[co.short_name] = None
                found: List[bytes] = []
                try:
                    pdu = bytes(co.encode()) if kind == "rq" else None
                    if pdu:
                        found.append(pdu)
                except Exception:  # noqa: BLE001
                    pass
                for ex in STATE.get("zoo_truth", {}).get(lname, {}).get("examples", {}).get(co.short_name, []):
                    # valid by construction (recorded by the zoo builder): not filtered through the decoder
                    found.append(bytes.fromhex(ex))
                try:
                    prefix = bytes(co.coded_const_prefix())
                except Exception:  # noqa: BLE001
                    prefix = b""
                tries = 0
                while len(found) < 3 and tries < 300:
                    tries += 1
                    tail = bytes(r.getrandbits(8) if r.random() < 0.6 else r.choice([0, 1, 2, 3, 0x41, 255])
                                 for _ in range(r.randint(0, 12)))
                    if ascii_tails:
                        # C17: the corpus must not depend on how invalid strings are treated
                        tail = bytes(b & 0x7F for b in tail)
                    pdu = prefix + tail
                    try:
                        if budget is not None:
                            budget.arm(INSTR_LIMIT)
                        co.decode(pdu)
                    except HangVerdict:
                        # a decode call that does not terminate while building the corpus: remember it,
                        # the first runs of the batch re-execute it as an ordinary (judged) check
                        STATE.setdefault("hang_checks", []).append(
                            [lname, ["C", pdu.hex(), None, [svc.short_name, co.short_name], "corpus"]])
                        break
                    except Exception:  # noqa: BLE001
                        continue
                    finally:
                        if budget is not None:
                            budget.disarm()
                    if pdu not in found:
                        found.append(pdu)
                for pdu in found:
                    # is it also decodable through the layer in isolation? (precondition of
                    # the liveness clause: only such PDUs are used for the final exchange)
                    # Judged with warnings escalated: a PDU that decodes with a warning (e.g. a
                    # constant that the example values got wrong) is not "well-formed" enough.
                    layer_ok = False
                    try:
                        if budget is not None:
                            budget.arm(INSTR_LIMIT)
                        with environment({"warnings": "error"}):
                            if kind == "rq":
                                msgs = layer.decode(pdu)
                                layer_ok = len(msgs) >= 1 and msgs[0].coding_object is not None
                            else:
                                rq_pdu = next((bytes.fromhex(x["pdu"]) for x in ents
                                               if x["svc"] == svc.short_name and x["kind"] == "rq"
                                               and x["layer_ok"]), None)
                                if rq_pdu is not None:
                                    msgs = layer.decode_response(pdu, rq_pdu)
                                    layer_ok = len(msgs) >= 1 and all(m.coding_object is not None for m in msgs)
                    except HangVerdict:
                        # does not terminate through the layer: judged as an ordinary check by the first runs
                        layer_ok = False
                        STATE.setdefault("hang_checks", []).append(
                            [lname, ["L", pdu.hex(), None, None, "corpus"]])
                    except Exception:  # noqa: BLE001
                        layer_ok = False
                    finally:
                        if budget is not None:
                            budget.disarm()
                    ents.append({"svc": svc.short_name, "co": co.short_name, "kind": kind, "pdu": pdu.hex(),
                                 "layer_ok": layer_ok})
            corpus[lname] = ents
            fixed[lname] = fl
    STATE["corpus"] = corpus
    STATE["fixed"] = fixed
    # sanity: the zoo's recorded ground truth agrees with the walk
    for lname, truth in STATE["zoo_truth"].items():
        for co_name, L in truth.items():
            if co_name == "examples":
                continue
            if L is not None and fixed[lname].get(co_name) not in (L, None):
                raise RuntimeError(f"ground truth mismatch {lname}.{co_name}: walk={fixed[lname].get(co_name)} zoo={L}")


# ------------------------------------------------------------------ generation
def layer_alphabet(lname: str) -> List[int]:
    sids = sorted({bytes.fromhex(e["pdu"])[0] for e in STATE["corpus"][lname] if e["pdu"]})
    return sids[:6] + [0x00, 0x7F, 0xFF]


def mutate_family(r, base: bytes, alphabet: List[int], sub_all_positions: bool) -> List[Tuple[str, bytes]]:
    out: List[Tuple[str, bytes]] = [("valid", base)]
    for n in range(len(base)):
        out.append(("prefix", base[:n]))
    positions = range(len(base)) if (sub_all_positions or len(base) <= 10) else sorted(
        r.sample(range(len(base)), 10))
    for i in positions:
        vals = [0x00, 0x01, 0x7F, 0x80, 0xFF, base[i] ^ 1, base[i] ^ 0x80] + alphabet[:3]
        for v in r.sample(vals, 3):
            if v != base[i]:
                out.append(("subst", base[:i] + bytes([v & 0xFF]) + base[i + 1:]))
    for k in (1, 2, 3):
        out.append(("extend", base + bytes(r.getrandbits(8) for _ in range(k))))
    if len(base) > 7:
        p = r.randint(0, len(base) - 7)
        out.append(("chunk_dup", base[:p + 7] + base[p:p + 7] + base[p + 7:]))
        out.append(("chunk_del", base[:p] + base[p + 7:]))
    return out


def gen(rs: int, index: int, tier: str) -> Dict[str, Any]:
    t = gen_(rs, index, tier)
    # environment variation: one run in six executes with warnings escalated to exceptions
    if Streams(rs).rng("env").random() < 1 / 6:
        t["env"] = {"warnings": "error"}
    return t


def gen_(rs: int, index: int, tier: str) -> Dict[str, Any]:
    S = Streams(rs)
    r = S.rng("cfg")
    names = STATE["layer_names"]
    hangs = STATE.get("hang_checks", [])
    if index < len(hangs):
        lname, chk = hangs[index]
        return {"mode": "pdu", "layer": lname, "checks": [chk], "systematic": True}
    # systematic part: all strings up to length 3 over the reduced alphabet, layer by layer
    n_sys = len(names) * 8
    if index < n_sys:
        lname = names[index % len(names)]
        part = index // len(names)
        alpha = layer_alphabet(lname)
        strings = [b""]
        for a in alpha:
            strings.append(bytes([a]))
            for b2 in alpha:
                strings.append(bytes([a, b2]))
                for c in alpha:
                    strings.append(bytes([a, b2, c]))
        mine = strings[part::8]
        corpus = STATE["corpus"][lname]
        req = next((e["pdu"] for e in corpus if e["kind"] == "rq"), "")
        checks = []
        for s in mine:
            checks.append(["L", s.hex(), None, None, "short"])
            checks.append(["R", s.hex(), req, None, "short"])
        return {"mode": "pdu", "layer": lname, "checks": checks, "systematic": True}
    mode = weighted(r, ["pdu", "conv"], [3, 1])
    lname = r.choice(names)
    corpus = STATE["corpus"][lname]
    if not corpus:
        mode = "pdu"
    if mode == "pdu":
        alpha = layer_alphabet(lname)
        checks: List[List[Any]] = []
        reqs = [e for e in corpus if e["kind"] == "rq"]
        n_base = r.randint(1, 3) if corpus else 0
        svc_names = sorted({e["svc"] for e in corpus})
        for _ in range(n_base):
            e = r.choice(corpus)
            base = bytes.fromhex(e["pdu"])
            fam = mutate_family(r, base, alpha, r.random() < 0.3)
            req = e["pdu"] if e["kind"] == "rq" else (r.choice(reqs)["pdu"] if reqs else "")
            same_svc_req = next((x["pdu"] for x in reqs if x["svc"] == e["svc"]), req)
            other = r.choice(svc_names)
            for kind, pdu in fam:
                h = pdu.hex()
                checks.append(["C", h, None, [e["svc"], e["co"]], kind])
                checks.append(["L", h, None, None, kind])
                if kind in ("valid", "prefix") or r.random() < 0.5:
                    checks.append(["R", h, same_svc_req, None, kind])
                if r.random() < 0.4:
                    checks.append(["S", h, None, [e["svc"], None], kind])
                if r.random() < 0.15:
                    checks.append(["S", h, None, [other, None], kind])
        for _ in range(r.randint(2, 12)):
            n = r.choice([0, 1, 2, 3, 4, 8, 16, 64, r.randint(0, 64)])
            s = bytes(r.getrandbits(8) for _ in range(n))
            if n and r.random() < 0.7:
                s = bytes([r.choice(alpha)]) + s[1:]
            checks.append(["L", s.hex(), None, None, "random"])
            if reqs:
                checks.append(["R", s.hex(), r.choice(reqs)["pdu"], None, "random"])
            if corpus and r.random() < 0.5:
                e = r.choice(corpus)
                checks.append(["C", s.hex(), None, [e["svc"], e["co"]], "random"])
        return {"mode": "pdu", "layer": lname, "checks": checks, "systematic": False}
    # conversation level
    from . import c13
    reqs = [e for e in corpus if e["kind"] == "rq"]
    resps = [e for e in corpus if e["kind"] != "rq"]
    rx_id, tx_id = 0x7E0, 0x7E8
    frames: List[List[Any]] = []
    n_ex = r.randint(1, 5)
    tel = 0
    for _ in range(n_ex):
        rq = r.choice(reqs) if reqs else None
        if rq is not None:
            p = bytes.fromhex(rq["pdu"])
            if r.random() < 0.25 and len(p) > 1:
                p = p[:r.randint(1, len(p) - 1)]
            if p:
                for f, k in W.segment(p[:4095], 8, r.choice(["none", "dlc"]), 0x55):
                    frames.append([rx_id, f.hex(), k, tel, "n"])
                tel += 1
        cands = [e for e in resps if rq is not None and e["svc"] == rq["svc"]] or resps
        if cands:
            p = bytes.fromhex(r.choice(cands)["pdu"])
            c = r.random()
            if c < 0.2 and len(p) > 1:
                p = p[:r.randint(1, len(p) - 1)]
            elif c < 0.35:
                i = r.randrange(len(p))
                p = p[:i] + bytes([r.getrandbits(8)]) + p[i + 1:]
            elif c < 0.45:
                p = bytes([0x7F, p[0] - 0x40 & 0xFF, r.choice([0x78, 0x11, 0x31])])
            if r.random() < 0.2:
                p = p + bytes(r.getrandbits(8) for _ in range(r.randint(1, 12)))
            for f, k in W.segment(p[:4095], 8, r.choice(["none", "dlc"]), 0xAA):
                frames.append([tx_id, f.hex(), k, tel, "n"])
            tel += 1
    rf = S.rng("fault")
    fired = []
    if frames:
        for _ in range(weighted(rf, [0, 1, 2, 4], [2, 4, 3, 1])):
            kind = rf.choice([k for k in c13.FAULT_KINDS if k != "restart"])
            frames, info = c13.apply_fault(frames, kind, rf.randint(0, max(0, len(frames) - 1)), rf, [rx_id, tx_id])
            if info:
                fired.append(info)
    # after the faults stop: one well-formed exchange (liveness)
    final = None
    ok_reqs = [e for e in reqs if e["layer_ok"]]
    if ok_reqs:
        rq = r.choice(ok_reqs)
        first_rq = next(e for e in ok_reqs if e["svc"] == rq["svc"])
        # responses were validated against the first valid request of their service
        rq = first_rq if r.random() < 0.7 else rq
        cands = [e for e in resps if e["svc"] == rq["svc"] and e["kind"] == "rs" and e["layer_ok"]
                 and rq is first_rq]
        rsx = r.choice(cands) if cands else None
        final = {"rq": rq["pdu"], "rs": rsx["pdu"] if rsx else None}
        for f, k in W.segment(bytes.fromhex(rq["pdu"]), 8, "dlc", 0x55):
            frames.append([rx_id, f.hex(), k, -2, "n", "final"])
        if rsx is not None:
            for f, k in W.segment(bytes.fromhex(rsx["pdu"]), 8, "dlc", 0x55):
                frames.append([tx_id, f.hex(), k, -2, "n", "final"])
    return {"mode": "conv", "layer": lname, "rx": rx_id, "tx": tx_id, "frames": frames, "faults": fired,
            "final": final}


# ------------------------------------------------------------------ execution
def find_objects(layer, svc_name: Optional[str], co_name: Optional[str]):
    svc = None
    for s in layer.services:
        if s.short_name == svc_name:
            svc = s
            break
    if svc is None or co_name is None:
        return svc, None
    cos = ([svc.request] if svc.request is not None else []) + list(svc.positive_responses) + list(
        svc.negative_responses)
    for c in cos:
        if c.short_name == co_name:
            return svc, c
    return svc, None


def run_check(layer, lname: str, chk: List[Any]) -> Tuple[str, Any]:
    """Returns (outcome class, info): ok / decode-error / exc / hang."""
    DecodeError = STATE["DecodeError"]
    entry, pdu_hex, req_hex, target, _kind = chk
    pdu: Any = bytes.fromhex(pdu_hex)
    if (len(pdu) + (pdu[0] if pdu else 0)) % 3 == 0:
        pdu = bytearray(pdu)  # transports hand over bytearrays as often as bytes (python-can does)
    # (memoryview PDUs are outside the contract: the pinned tree itself fails on them, e.g.
    # MinMaxLengthType uses .find() and DecodeState reverses slices - see DESIGN.md section 16)
    budget: InstrBudget = STATE["budget"]
    budget.arm(INSTR_LIMIT)
    try:
        if entry == "L":
            layer.decode(pdu)
        elif entry == "R":
            req: Any = bytes.fromhex(req_hex or "")
            if len(req) % 2 == 1:
                req = bytearray(req)  # encode_request() returns a bytearray: what callers naturally pass back
            layer.decode_response(pdu, req)
        elif entry == "S":
            svc, _ = find_objects(layer, target[0], None)
            if svc is None:
                return "skip", None
            svc.decode_message(pdu)
        elif entry == "C":
            svc, co = find_objects(layer, target[0], target[1])
            if co is None:
                return "skip", None
            co.decode(pdu)
        else:
            raise ValueError(entry)
        return "ok", None
    except DecodeError as e:
        return "decode-error", exc_site(e)
    except HangVerdict as e:
        return "hang", exc_site(e)
    except Exception as e:  # noqa: BLE001 - any other exception type is the violation
        return "exc", e
    finally:
        budget.disarm()


def execute_pdu(trace: Dict[str, Any], log: EventLog) -> Dict[str, Any]:
    lname = trace["layer"]
    layer = STATE["layers"][lname]
    fixed = STATE["fixed"].get(lname, {})
    violations: List[Dict[str, Any]] = []
    counters: Dict[str, int] = {}
    faults: Dict[str, int] = {}
    states = set()
    n_ok = n_de = 0
    with W.quiet():
        for chk in trace["checks"]:
            outcome, info = run_check(layer, lname, chk)
            entry, pdu_hex, req_hex, target, kind = chk
            counters["calls_" + entry] = counters.get("calls_" + entry, 0) + 1
            faults[kind] = faults.get(kind, 0) + 1
            if outcome == "ok":
                n_ok += 1
                log.ev(entry, "ok", {"pdu": pdu_hex, "t": target})
                states.add(h64(lname, entry, "ok"))
                if entry == "C":
                    # truncation clause: a PDU shorter than what it announces must not be completed
                    svc_, co_ = find_objects(layer, target[0], target[1])
                    try:
                        L = required_len(co_, bytes.fromhex(pdu_hex)) if co_ is not None else None
                    except Exception:  # noqa: BLE001 - the reference walk gives up
                        L = None
                    if L is not None and len(pdu_hex) // 2 < L:
                        violations.append({
                            "oracle": "C05.truncation-rejected", "sig": {"what": "short-pdu-completed"},
                            "detail": {"layer": lname, "coding_object": target[1], "required_len": L, "mutation": kind,
                                       "pdu": pdu_hex, "len": len(pdu_hex) // 2}})
            elif outcome == "decode-error":
                n_de += 1
                log.ev(entry, "decode-error", {"pdu": pdu_hex, "site": info})
                states.add(h64(lname, entry, "de", info))
            elif outcome == "hang":
                violations.append({"oracle": "C05.terminates", "sig": {"site": info},
                                   "detail": {"layer": lname, "entry": entry, "pdu": pdu_hex, "target": target,
                                              "budget": INSTR_LIMIT}})
                log.ev(entry, "hang", {"pdu": pdu_hex})
            elif outcome == "exc":
                sig = exc_sig(info)
                violations.append({"oracle": "C05.only-decode-error", "sig": sig,
                                   "detail": {"layer": lname, "entry": entry, "pdu": pdu_hex, "request": req_hex,
                                              "target": target, "mutation": kind, "msg": str(info)[:200]}})
                log.ev(entry, "exc", {"pdu": pdu_hex, **sig})
                states.add(h64(lname, entry, "exc", sig["exc"], sig["site"]))
    counters["decode_ok"] = n_ok
    counters["decode_error"] = n_de
    return {"violations": violations, "counters": counters, "faults": faults, "states": states,
            "nontrivial": n_ok > 0 and n_de > 0, "sim_time": 0.0, "probes": {}}


def originates_in_decode(exc: BaseException) -> bool:
    import traceback
    for fs in traceback.extract_tb(exc.__traceback__):
        if fs.filename.endswith("diaglayer.py") and fs.name in ("decode", "decode_response", "_decode"):
            return True
    return False


def execute_conv(trace: Dict[str, Any], log: EventLog) -> Dict[str, Any]:
    import odxtools.cli.snoop as snoop
    from odxtools.isotp_state_machine import IsoTpStateMachine
    lname = trace["layer"]
    layer = STATE["layers"][lname]
    violations: List[Dict[str, Any]] = []
    counters: Dict[str, int] = {}
    faults: Dict[str, int] = {}
    probes: Dict[str, int] = {}
    states = set()
    rx, tx = trace["rx"], trace["tx"]
    # set the module globals exactly as snoop.run()/passive_main() do
    snoop.odx_diag_layer = layer
    snoop.last_request = None
    snoop.ecu_rx_id = rx
    snoop.ecu_tx_id = tx
    sm = snoop.init_verbose_state_machine(IsoTpStateMachine, can_rx_ids=[rx, tx])
    out = io.StringIO()
    so, se = sys.stdout, sys.stderr
    budget: InstrBudget = STATE["budget"]
    n_tel = 0
    final_out = {"rq": "", "rs": ""}
    for fl in trace.get("faults", []):
        faults[fl["kind"]] = faults.get(fl["kind"], 0) + 1
    try:
        sys.stdout = out
        sys.stderr = W.NULL_OUT  # type: ignore[assignment]
        for k, f in enumerate(trace["frames"]):
            data = bytes.fromhex(f[1])
            is_final = len(f) > 5 and f[5] == "final"
            try:
                tels = [(i, bytes(p)) for i, p in sm.decode_rx_frame(f[0], data)]
            except Exception as e:  # noqa: BLE001 - C13's business; logged, not gated here
                log.ev("isotp", "raised", exc_sig(e))
                probes["isotp_raised"] = probes.get("isotp_raised", 0) + 1
                continue
            for tid, payload in tels:
                n_tel += 1
                mark = out.tell()
                budget.arm(INSTR_LIMIT)
                try:
                    snoop.handle_telegram(tid, payload)
                    log.ev("snoop", "handled", {"id": tid, "payload": payload})
                except HangVerdict as e:
                    violations.append({"oracle": "C05.terminates", "sig": {"site": exc_site(e)},
                                       "detail": {"layer": lname, "entry": "snoop", "pdu": payload.hex()}})
                except Exception as e:  # noqa: BLE001
                    sig = exc_sig(e)
                    if originates_in_decode(e):
                        violations.append({"oracle": "C05.snoop-survives", "sig": sig,
                                           "detail": {"layer": lname, "telegram_id": tid, "pdu": payload.hex(),
                                                      "last_request": None, "msg": str(e)[:200]}})
                        log.ev("snoop", "decode-exc", sig)
                    else:
                        # not raised inside a decode call, but the session dies all the same: what the
                        # bus delivers (in whatever order) must not abort the snooper
                        violations.append({"oracle": "C05.snoop-survives", "sig": {**sig, "origin": "handler"},
                                           "detail": {"layer": lname, "telegram_id": tid, "pdu": payload.hex(),
                                                      "msg": str(e)[:200]}})
                        log.ev("snoop", "other-exc", sig)
                finally:
                    budget.disarm()
                if is_final:
                    final_out["rq" if tid == rx else "rs"] += out.getvalue()[mark:]
    finally:
        sys.stdout, sys.stderr = so, se
    counters["telegrams"] = n_tel
    fin = trace.get("final")
    if fin and not any(v["oracle"] == "C05.snoop-survives" for v in violations):
        # liveness within one exchange once faults stop
        if "request " not in final_out["rq"]:
            violations.append({"oracle": "C05.liveness-after-faults", "sig": {"what": "request-not-decoded"},
                               "detail": {"layer": lname, "request": fin["rq"], "printed": final_out["rq"][:200]}})
        elif fin.get("rs") and " response" not in final_out["rs"].replace("unrecognized response", ""):
            violations.append({"oracle": "C05.liveness-after-faults", "sig": {"what": "response-not-decoded"},
                               "detail": {"layer": lname, "request": fin["rq"], "response": fin["rs"],
                                          "printed": final_out["rs"][:200]}})
        else:
            probes["final_exchange_decoded"] = 1
    inflight = any(fl.get("hit") in ("cf", "ff") for fl in trace.get("faults", []))
    return {"violations": violations, "counters": counters, "faults": faults, "states": states, "probes": probes,
            "nontrivial": n_tel >= 2 and inflight, "sim_time": 0.0005 * len(trace["frames"])}


def execute(trace: Dict[str, Any]) -> Dict[str, Any]:
    log = EventLog()
    log.ev("sim", "config", {"mode": trace["mode"], "layer": trace["layer"]})
    env = trace.get("env")
    if env:
        log.ev("sim", "env", env)
    with environment(env):
        if trace["mode"] == "pdu":
            r = execute_pdu(trace, log)
        else:
            r = execute_conv(trace, log)
    if env:
        r["faults"]["env_warnings_" + str(env.get("warnings"))] = 1
    seen = set()
    uniq = []
    for v in r["violations"]:
        key = (v["oracle"], tuple(sorted(v["sig"].items())))
        if key not in seen:
            seen.add(key)
            uniq.append(v)
            log.ev("oracle", "violation", {"oracle": v["oracle"], "sig": v["sig"]})
    r["counters"]["mode_" + trace["mode"]] = 1
    sample: Dict[str, Any] = {"mode": trace["mode"], "layer": trace["layer"]}
    if trace["mode"] == "pdu":
        sample["checks"] = trace["checks"][:12]
        sample["n_checks"] = len(trace["checks"])
    else:
        sample["frames"] = [[f[0], f[1], f[2]] for f in trace["frames"][:20]]
        sample["faults"] = trace.get("faults", [])[:5]
    return {
        "digest": log.digest(),
        "events": log.events,
        "counters": r["counters"],
        "faults": r["faults"],
        "probes": r["probes"],
        "states": r["states"],
        "sched_sig": h64("c05", trace["mode"], trace["layer"]),
        "sim_time": r["sim_time"],
        "violations": uniq,
        "nontrivial": r["nontrivial"],
        "sample": sample,
    }


# ------------------------------------------------------------------ minimisation
def trace_size(trace: Dict[str, Any]) -> int:
    return len(trace["checks"]) if trace["mode"] == "pdu" else len(trace["frames"])


def shrink(trace: Dict[str, Any], still_fails) -> Dict[str, Any]:
    budget = ShrinkBudget(600)
    if trace.get("env"):
        plain = {k: v for k, v in trace.items() if k != "env"}
        if still_fails(plain):
            trace = plain
    if trace["mode"] == "pdu":
        checks = ddmin_list(trace["checks"], lambda c: still_fails({**trace, "checks": c}), budget)

        def simpler(chk: List[Any]) -> List[List[Any]]:
            out = []
            p = bytes.fromhex(chk[1])
            if len(p) > 1:
                out.append([chk[0], p[:-1].hex()] + chk[2:])
                out.append([chk[0], p[:len(p) // 2].hex()] + chk[2:])
            for i in range(min(len(p), 12)):
                if p[i] != 0:
                    out.append([chk[0], (p[:i] + b"\x00" + p[i + 1:]).hex()] + chk[2:])
            return out

        checks = shrink_each(checks, simpler, lambda c: still_fails({**trace, "checks": c}), budget)
        return {**trace, "checks": checks, "systematic": False}
    frames = ddmin_list(trace["frames"], lambda f: still_fails({**trace, "frames": f, "final": None}), budget)
    t2 = {**trace, "frames": frames, "faults": []}
    if not still_fails(t2):
        t2 = {**trace, "frames": frames}
    if still_fails({**t2, "final": None}):
        t2 = {**t2, "final": None}
    return t2
