"""C12 - ISO-TP reassembly returns exactly the transmitted telegrams (faults off).

World: reference segmenter nodes (stub) -> seeded arbiter (the schedule) -> the real
odxtools reassembler behind every entry point (direct call, candump text in three
formats, BusABC on a virtual-time asyncio loop; passive / active / snoop's verbose
subclass).  Oracle: per monitored ID the reports are exactly the transmitted payloads,
in order, each once; the active decoder answers every first frame with a CTS flow
control frame on its tx id.
"""
import itertools
from typing import Any, Dict, List, Optional, Tuple

from ..can import world as W
from ..core.evlog import EventLog, exc_sig
from ..core.seeds import Streams, h64, weighted
from ..core.shrink import ShrinkBudget, ddmin_list

META: Dict[str, Any] = {
    "id": "C12",
    "level": "exploration",
    "pools": [{"backend": "c"}, {"backend": "py"}, {"backend": "c", "optimize": 1}],
    "tiers": {
        "quick": {"runs": 24000, "chunk": 150, "wall": 200, "chunk_wall": 240},
        "thorough": {"runs": 1500000, "chunk": 400, "wall": 900, "chunk_wall": 600},
    },
    "selftest_runs": 6,
    "rule": ("one run = 1-3 monitored CAN IDs (+0-2 unrelated IDs), 1-6 telegrams per ID with "
             "boundary-biased lengths 1..4095, classic or FD frame size, seeded padding, seeded "
             "flow-control / foreign frames, one seeded arbitration schedule (the first runs of a "
             "batch walk all interleavings of 2-3 short transfers systematically), the delivered "
             "frames fed to 3-5 entry points. Non-trivial: at least one multi-frame transfer has a "
             "frame of another ID or a flow-control frame delivered between its first and last "
             "frame. Distinct = distinct event-log digest."),
    "state_measure": ("abstract receiver state after each delivered frame: per monitored ID "
                      "(idle|in-transfer, expected SN, remaining-bytes bucket) and number of IDs in "
                      "transfer"),
    "sim_time_note": "frame timestamps of the generated candump logs / bus messages (0.5 ms per frame)",
    "components": {
        "real": ["odxtools.isotp_state_machine.IsoTpStateMachine (decode_rx_frame, read_telegrams)",
                 "odxtools.isotp_state_machine.IsoTpActiveDecoder",
                 "odxtools.cli.snoop.init_verbose_state_machine", "asyncio (on a virtual-time loop)",
                 "can.Message", "can-isotp TransportLayerLogic as traffic source (closed-loop runs)"],
        "stub": ["CAN bus (SimBus)", "arbiter / scheduler", "reference ISO 15765-2 segmenter",
                 "text stream (SimTextIO)", "clock"],
    },
    "assumptions": [
        "segmentation reference written from ISO 15765-2 in vsim/can/world.py is correct",
        "telegram lengths 1..4095 (no 32-bit FF_DL escape)",
        "frames longer than 8 bytes are padded at least to the next valid CAN FD length",
    ],
}

ID_POOL = [0x7E0, 0x7E8, 0x6F1, 0x612, 0x18DA10F1, 0x18DAF110, 0x7DF, 0x123, 0x001, 0x7FF]
BOUNDARY_CLASSIC = [1, 2, 6, 7, 8, 9, 12, 13, 14, 20, 21, 6 + 7 * 14, 6 + 7 * 15, 6 + 7 * 15 + 1,
                    6 + 7 * 16, 6 + 7 * 16 + 1, 6 + 7 * 31, 6 + 7 * 32 + 3, 255, 256, 257]
BIG = [4094, 4095, 4000, 2048, 1791, 1792, 1793]


def pool_of(rs: int, index: int) -> int:
    return h64("pool", rs) % 3


def worker_init() -> None:
    W.preload_snoop_layer()


# ------------------------------------------------------------------ generation
def fd_boundaries(tx_dl: int) -> List[int]:
    a, b = tx_dl - 2, tx_dl - 1
    return [7, 8, a - 1, a, a + 1, a + b - 1, a + b, a + b + 1, a + 2 * b, a + 15 * b, a + 16 * b + 1]


UDS_MODE = [False]  # per-trace switch set by gen(): telegrams that look like UDS traffic


def gen_payload(rng, n: int, counter: int) -> bytes:
    body = bytearray(rng.getrandbits(8) for _ in range(n))
    # embed a counter so that every report is attributable to one transmission
    tag = bytes([0xA0 | (counter >> 8) & 0xF, counter & 0xFF])
    if UDS_MODE[0]:
        # UDS-like head: negative responses (also with rare / unassigned response codes and cut short),
        # positive responses and requests of the services the snoop tool's example database knows
        kind = rng.choice(["neg", "neg", "pos", "req"])
        sid = rng.choice([0x10, 0x22, 0x31, 0x3E, 0xBA, 0xBD])
        if kind == "neg":
            head = bytes([0x7F, sid, rng.choice([0x78, 0x78, 0x11, 0x12, 0x31, 0x22, 0x93, 0x34, 0x81, 0xF0, 0xFE, 0x00,
                                                 rng.getrandbits(8)])])
        elif kind == "pos":
            head = bytes([(sid + 0x40) & 0xFF])
        else:
            head = bytes([sid])
        body[:min(n, len(head))] = head[:n]
        if n >= len(head) + 2:
            body[len(head):len(head) + 2] = tag
        return bytes(body)
    body[:min(n, 2)] = tag[2 - min(n, 2):] if n < 2 else tag
    return bytes(body)


def unrank_interleaving(counts: List[int], rank: int) -> List[int]:
    """rank-th (lexicographic) interleaving of sum(counts) frames, per-node order kept."""
    from math import factorial

    def ways(cs: List[int]) -> int:
        w = factorial(sum(cs))
        for c in cs:
            w //= factorial(c)
        return w

    cs = list(counts)
    out = []
    while sum(cs) > 0:
        for node in range(len(cs)):
            if cs[node] == 0:
                continue
            cs[node] -= 1
            w = ways(cs)
            if rank < w:
                out.append(node)
                break
            rank -= w
            cs[node] += 1
        else:
            raise ValueError("rank out of range")
    return out


_SYS_TABLE: Optional[List[Tuple[Tuple[int, ...], int, int]]] = None
SYS_LENS2 = [7, 8, 14, 21]
SYS_LENS3 = [7, 8, 14]


def sys_table() -> List[Tuple[Tuple[int, ...], int, int]]:
    global _SYS_TABLE
    if _SYS_TABLE is None:
        from math import factorial
        tab = []
        start = 0
        for lens in list(itertools.product(SYS_LENS2, repeat=2)) + list(
                itertools.product(SYS_LENS3, repeat=3)):
            counts = [len(W.segment(bytes(n), 8)) for n in lens]
            w = factorial(sum(counts))
            for c in counts:
                w //= factorial(c)
            tab.append((tuple(lens), start, w))
            start += w
        _SYS_TABLE = tab
    return _SYS_TABLE


def sys_total() -> int:
    t = sys_table()[-1]
    return t[1] + t[2]


# lines of a capture that are not frames of a monitored ID: blank lines, comments, and lines for
# an unmonitored ID that were cut short (logger killed / disk full: odd number of hex digits)
TEXT_NOISE = ["", "# comment", "   ", "interface = can0",
              "(1700000000.000100) can0 6FE#11223", "(1700000000.000100) can0 6FE##1112",
              "  can0  6FE   [3]  11 22 3", "(1700000000.000100) can0 6FE#1", "  can0  6FE   [8]  1",
              # remote frames, zero-length frames with the ASCII column, error frames
              "  can0  6FE   [0]  remote request", "  can0  6FE   [0]  ''", "  can0  6FE   [2]  remote request",
              "  can0  20000004   [8]  00 00 04 00 00 00 00 00   ERRORFRAME", "(1700000000.000100) can0 6FE#R",
              "(1700000000.0001"]

ENTRY_POOL = [
    {"ep": "direct", "kind": "passive", "dt": "bytearray"},
    {"ep": "direct", "kind": "passive", "dt": "message"},
    {"ep": "direct", "kind": "active", "dt": "bytes"},
    {"ep": "direct", "kind": "vpassive", "dt": "bytes"},
    {"ep": "direct", "kind": "vactive", "dt": "bytearray"},
    {"ep": "direct", "kind": "passive", "dt": "bytes", "consume": "first"},
    {"ep": "direct", "kind": "passive", "dt": "reused"},
    {"ep": "direct", "kind": "vactive", "dt": "reused"},
    {"ep": "direct", "kind": "active", "dt": "message", "consume": "first"},
    {"ep": "text", "kind": "passive"},
    {"ep": "text", "kind": "vpassive"},
    {"ep": "text", "kind": "active"},
    {"ep": "text", "kind": "passive", "portions": 2},
    {"ep": "text", "kind": "active", "portions": 3},
    {"ep": "text", "kind": "vpassive", "portions": 5},
    {"ep": "text", "kind": "passive", "mixed": 2},
    {"ep": "text", "kind": "vactive", "mixed": 3},
    {"ep": "snoop", "kind": "passive"},
    {"ep": "snoop", "kind": "passive", "nostrict": True},
    {"ep": "bus", "kind": "passive"},
    {"ep": "bus", "kind": "active"},
    {"ep": "bus", "kind": "vactive"},
]


def choose_entries(rng, n_extra: int) -> List[Dict[str, Any]]:
    ents = [{"ep": "direct", "kind": "passive", "dt": "bytes"}]
    pool = list(ENTRY_POOL)
    rng.shuffle(pool)
    ents += pool[:n_extra]
    if not any(e["kind"].endswith("active") for e in ents):
        ents.append(rng.choice([e for e in ENTRY_POOL if e["kind"].endswith("active")]))
    return ents


def pick_fmt(rng, mode: str, n: int) -> str:
    if mode == "n":
        return "n"
    if mode == "l":
        return "f" if n > 8 else "l"
    c = rng.choice("nlf") if n <= 8 else rng.choice("nf")
    return c


def gen_closed(S: Streams, with_faults: bool = False) -> Dict[str, Any]:
    """A closed-loop run: real can-isotp stacks as traffic sources (flow control, block
    size, STmin under the simulated clock); odxtools snoops or is the receiver."""
    r = S.rng("closed")
    mode = weighted(r, ["snoop", "active"], [3, 2])
    kind = r.choice(["passive", "vpassive"]) if mode == "snoop" else r.choice(["active", "vactive"])
    ids = r.choice([(0x7E0, 0x7E8), (0x6F1, 0x612), (0x18DA10F1, 0x18DAF110), (0x001, 0x7FF)])
    tx_dl = weighted(r, [8, 12, 16, 24, 32, 48, 64], [10, 1, 1, 1, 1, 1, 3])
    cfg = {"mode": mode, "kind": kind, "rx_id": ids[0], "tx_id": ids[1],
           "stmin": r.choice([0, 0, 1, 2, 0xF1, 0xF5]), "blocksize": r.choice([0, 1, 2, 3, 8, 15, 16, 255]),
           "tx_dl": tx_dl, "padding": r.choice([None, None, 0x00, 0xAA, 0xCC, 0x55]),
           "nut_padding": r.choice([0, 8])}
    tels: List[List[Any]] = []
    ctr = 0
    for direction in (("req", "rsp") if mode == "snoop" else ("req",)):
        for _ in range(weighted(r, [1, 2, 3, 4], [3, 4, 2, 1])):
            c = r.random()
            if c < 0.5:
                n = r.choice(BOUNDARY_CLASSIC if tx_dl == 8 else fd_boundaries(tx_dl))
            elif c < 0.9:
                n = r.randint(1, 60)
            else:
                n = r.randint(1, 1500)
            n = max(1, min(n, 1791 if mode == "active" else 4095))
            tels.append([direction, gen_payload(r, n, ctr).hex()])
            ctr += 1
    r.shuffle(tels)
    faults: List[List[Any]] = []
    if with_faults:
        for direction in (("req", "rsp") if mode == "snoop" else ("req",)):
            n = r.choice([3, 5, 7, 8, 20, 40])
            # unique by construction: no other telegram starts with 0xEE
            tels.append([direction, (bytes([0xEE]) + gen_payload(r, n, 0xE00)[1:]).hex(), "final"])
        nf = weighted(r, [1, 2, 4], [4, 3, 1])
        for _ in range(nf):
            faults.append([r.randint(0, 60), r.choice(["drop", "drop", "dup"])])
        faults.sort()
    return {"kind": "closed", "cfg": cfg, "telegrams": tels, "sched_seed": r.randint(0, 10**9), "faults": faults,
            "monitored": [ids[0], ids[1]] if mode == "snoop" else [ids[0]], "tx_ids": [ids[1]], "entries": []}


def gen(rs: int, index: int, tier: str) -> Dict[str, Any]:
    systematic = index < sys_total() and index % 2 == 0 if tier == "quick" else index < sys_total()
    UDS_MODE[0] = (not systematic) and Streams(rs).rng("uds").random() < 0.3
    try:
        t = gen_(rs, index, tier)
    finally:
        UDS_MODE[0] = False
    return t


def gen_(rs: int, index: int, tier: str) -> Dict[str, Any]:
    S = Streams(rs)
    r = S.rng("cfg")
    systematic = index < sys_total() and index % 2 == 0 if tier == "quick" else index < sys_total()
    sys_rank = index // 2 if tier == "quick" else index
    if not systematic and S.rng("mode").random() < 0.2:
        return gen_closed(S)
    ids = list(ID_POOL)
    r.shuffle(ids)
    if systematic and sys_rank < sys_total():
        lens = None
        for lens_, start, w in sys_table():
            if start <= sys_rank < start + w:
                lens, rank = lens_, sys_rank - start
                break
        assert lens is not None
        n_mon = len(lens)
        monitored = ids[:n_mon]
        tx_ids = ids[n_mon:2 * n_mon]
        queues = []
        transmitted: Dict[str, List[str]] = {}
        ctr = 0
        for mi, n in enumerate(lens):
            p = gen_payload(r, n, ctr)
            ctr += 1
            transmitted[str(monitored[mi])] = [p.hex()]
            queues.append([[monitored[mi], f.hex(), k, 0] for f, k in W.segment(p, 8, "none")])
        order = unrank_interleaving([len(q) for q in queues], rank)
        pos = [0] * len(queues)
        frames = []
        for node in order:
            frames.append(queues[node][pos[node]])
            pos[node] += 1
        mode = "mixed"
        cfg_note = {"systematic": True, "lens": list(lens), "rank": rank}
    else:
        n_mon = weighted(r, [1, 2, 3], [3, 4, 3])
        n_other = weighted(r, [0, 1, 2], [3, 4, 3])
        monitored = ids[:n_mon]
        tx_ids = ids[n_mon:2 * n_mon]
        others = ids[2 * n_mon:2 * n_mon + n_other]
        if others and r.random() < 0.5:
            others[0] = tx_ids[0]  # flow control of the peer direction is foreign traffic too
        queues = []
        transmitted = {}
        ctr = 0
        big_left = 1
        rl = S.rng("lengths")
        for mi in range(n_mon):
            tx_dl = weighted(rl, [8, 12, 16, 20, 24, 32, 48, 64], [10, 1, 1, 1, 1, 1, 1, 3])
            pad_mode = rl.choice(["none", "dlc", "full"])
            pad_byte = rl.choice([0x00, 0xAA, 0xCC, 0x55, 0xFF, 0x21, 0x30, rl.getrandbits(8)])
            n_tel = weighted(rl, [1, 2, 3, 4, 5, 6], [3, 4, 4, 2, 1, 1])
            q: List[List[Any]] = []
            plist: List[str] = []
            for t in range(n_tel):
                c = rl.random()
                if c < 0.45:
                    n = rl.choice(BOUNDARY_CLASSIC if tx_dl == 8 else fd_boundaries(tx_dl))
                elif c < 0.5 and big_left > 0:
                    n = rl.choice(BIG)
                    big_left -= 1
                elif c < 0.8:
                    n = rl.randint(1, 40)
                else:
                    n = rl.randint(1, 300 if tx_dl == 8 else 1200)
                n = max(1, min(4095, n))
                p = gen_payload(rl, n, ctr)
                ctr += 1
                plist.append(p.hex())
                for f, k in W.segment(p, tx_dl, pad_mode, pad_byte):
                    q.append([monitored[mi], f.hex(), k, t])
            # flow control frames of the opposite direction share this ID (full duplex)
            rf = S.rng(f"fc{mi}")
            n_fc = weighted(rf, [0, 1, 2, 4], [4, 3, 2, 1])
            for _ in range(n_fc):
                pos_ = rf.randint(0, len(q))
                fc = W.flow_control(rf.choice([0, 0, 1, 2]), rf.getrandbits(8), rf.getrandbits(8),
                                    rf.choice([0, 8]), pad_byte)
                q.insert(pos_, [monitored[mi], fc.hex(), "fc", -1])
            transmitted[str(monitored[mi])] = plist
            queues.append(q)
        rn = S.rng("noise")
        for oi, oid in enumerate(others):
            q = []
            for _ in range(rn.randint(1, 12)):
                ln = rn.choice([0, 1, 2, 3, 8, 8, 8, 8, 12, 64])
                data = bytes(rn.getrandbits(8) for _ in range(ln))
                if ln and rn.random() < 0.5:
                    data = bytes([rn.choice([0x02, 0x10, 0x21, 0x22, 0x30])]) + data[1:]
                q.append([oid, data.hex(), "noise", -1])
            queues.append(q)
        # the arbiter: seeded schedule, per-ID FIFO order preserved
        ra = S.rng("arbiter")
        weights = [ra.choice([1, 1, 2, 5]) for _ in queues]
        bursty = ra.random() < 0.4
        pos = [0] * len(queues)
        frames = []
        last = -1
        while True:
            live = [i for i in range(len(queues)) if pos[i] < len(queues[i])]
            if not live:
                break
            if bursty and last in live and ra.random() < 0.7:
                node = last
            else:
                node = weighted(ra, live, [weights[i] for i in live])
            frames.append(queues[node][pos[node]])
            pos[node] += 1
            last = node
        mode = r.choice(["n", "l", "mixed"])
        cfg_note = {"systematic": False}
    # text rendering choices live in the frame records (self-describing, shrinkable)
    rt = S.rng("text")
    out_frames: List[List[Any]] = []
    style = rt.randint(0, 31)
    for f in frames:
        n = len(f[1]) // 2
        out_frames.append(f + [pick_fmt(rt, mode, n)])
        if rt.random() < 0.04:
            out_frames.append([None, rt.choice(TEXT_NOISE), "tn", -1, "n"])
    re_ = S.rng("entries")
    return {
        "kind": "open",
        "monitored": monitored,
        "tx_ids": tx_ids,
        "frames": out_frames,
        "transmitted": transmitted,
        "entries": choose_entries(re_, re_.randint(2, 4)),
        "padding": re_.choice([0, 0, 8]),
        "text": {"style": style, "crlf": rt.random() < 0.2, "last_newline": rt.random() < 0.8},
        "note": cfg_note,
    }


# ------------------------------------------------------------------ execution
def real_frames(trace: Dict[str, Any]) -> List[Tuple[int, bytes]]:
    return [(f[0], bytes.fromhex(f[1])) for f in trace["frames"] if f[2] != "tn"]


def text_lines(trace: Dict[str, Any], skip_empty: bool = False) -> List[Tuple[str, Optional[int]]]:
    lines: List[Tuple[str, Optional[int]]] = []
    tcfg = trace.get("text", {})
    eol = "\r\n" if tcfg.get("crlf") else "\n"
    k = 0
    t = 1700000000.0
    for f in trace["frames"]:
        if f[2] == "tn":
            lines.append((f[1] + eol, None))
            continue
        data = bytes.fromhex(f[1])
        t += 0.0005
        if len(data) == 0 and skip_empty:
            k += 1
            continue
        lines.append((W.render_line(f[0], data, f[4], t, tcfg.get("style", 0)) + eol, k))
        k += 1
    if lines and not tcfg.get("last_newline", True):
        text, fi = lines[-1]
        lines[-1] = (text.rstrip("\r\n"), fi)
    return lines


def run_entry(trace: Dict[str, Any], ent: Dict[str, Any], frames: List[Tuple[int, bytes]],
              clock: W.SimClock, restarts=()) -> W.EntryResult:
    mon, tx, pad = trace["monitored"], trace["tx_ids"], trace.get("padding", 0)
    if ent["ep"] == "direct":
        return W.feed_direct(frames, ent["kind"], mon, tx, ent.get("dt", "bytes"), pad, restarts,
                             consume=ent.get("consume", "all"))
    if ent["ep"] == "text":
        head = None
        if ent.get("mixed"):
            # the caller fed the first 1/mixed of the frames by hand before switching to the log reader
            head = (frames, len(frames) // int(ent["mixed"]))
        return W.feed_text(text_lines(trace), ent["kind"], mon, tx, pad, portions=int(ent.get("portions", 1)),
                           head_direct=head)
    if ent["ep"] == "snoop":
        # the whole tool pipeline (odxtools snoop reading a capture from stdin); it tracks exactly two IDs
        if len(mon) != 2:
            return W.feed_text(text_lines(trace), "vpassive", mon, tx, pad)
        return W.feed_snoop(text_lines(trace), mon, strict=not ent.get("nostrict"))
    if ent["ep"] == "bus":
        return W.feed_bus(frames, ent["kind"], mon, tx, clock, pad)
    raise ValueError(ent)


def classify(exp: List[bytes], got: List[bytes]) -> Tuple[str, int]:
    for i in range(max(len(exp), len(got))):
        if i >= len(got):
            return "missing", i
        if i >= len(exp):
            return "extra", i
        if exp[i] != got[i]:
            if got[i] in exp[i + 1:]:
                return "missing", i
            if i > 0 and got[i] == exp[i - 1]:
                return "duplicate", i
            if len(got[i]) == 0:
                return "empty", i
            if len(got[i]) != len(exp[i]):
                return "wrong-length", i
            return "wrong-bytes", i
    return "ok", -1


def shape_of(n: int, frames_for: List[str]) -> str:
    return frames_for[0] if frames_for else "?"


def pci_kind(d: bytes) -> str:
    if not d:
        return "empty"
    t = d[0] >> 4
    if t == 0:
        return "sfx" if (d[0] & 0xF) == 0 and len(d) > 8 else "sf"
    return {1: "ff", 2: "cf", 3: "fc"}.get(t, "other")


def closed_to_open(trace: Dict[str, Any], delivered: List[Tuple[int, bytes, str]]) -> Dict[str, Any]:
    """The frames a closed-loop run delivered, as a concrete open-loop trace."""
    tel_idx: Dict[int, int] = {}
    frames = []
    for fid, d, src in delivered:
        if src == "nut":
            continue
        k = pci_kind(d)
        if k in ("sf", "sfx", "ff"):
            tel_idx[fid] = tel_idx.get(fid, -1) + 1
        frames.append([fid, d.hex(), k, tel_idx.get(fid, 0) if k != "fc" else -1, "n"])
    cfg = trace["cfg"]
    transmitted = {str(cfg["rx_id"]): [t[1] for t in trace["telegrams"] if t[0] == "req"]}
    if cfg["mode"] == "snoop":
        transmitted[str(cfg["tx_id"])] = [t[1] for t in trace["telegrams"] if t[0] == "rsp"]
    return {"kind": "open", "monitored": list(trace["monitored"]), "tx_ids": list(trace["tx_ids"]) if cfg["mode"] == "active"
            else [0x7DE, 0x7DD][:len(trace["monitored"])],
            "frames": frames, "transmitted": transmitted,
            "entries": [{"ep": "direct", "kind": cfg["kind"], "dt": "bytes"}], "padding": cfg.get("nut_padding", 0),
            "text": {"style": 0, "crlf": False, "last_newline": True}, "note": {"from_closed_loop": True}}


def execute_closed(trace: Dict[str, Any]) -> Dict[str, Any]:
    from ..can import closedloop as CL
    log = EventLog()
    clock = W.SimClock()
    cfg = trace["cfg"]
    res = CL.run_closed_loop(cfg, trace["telegrams"], trace["sched_seed"], trace.get("faults", []), clock)
    violations: List[Dict[str, Any]] = []
    probes: Dict[str, int] = {"closed_loop_run": 1}
    counters: Dict[str, int] = {"frames": len(res.delivered), "closed_" + cfg["mode"]: 1}
    log.ev("sim", "closed-config", cfg)
    log.ev("bus", "delivered", [(f, d, s) for f, d, s in res.delivered], clock.now)
    log.ev("nut", "reports", [(k, i, p) for k, i, p in res.reports])
    if res.steps >= 60000 and not res.completed:
        raise RuntimeError("closed-loop simulation did not finish within its step cap")
    real_errors = [e for e in res.stack_errors if e[1] != "UnexpectedFlowControlError"]
    if any(e[1] == "UnexpectedFlowControlError" for e in res.stack_errors):
        probes["active_decoder_sends_fc_on_single_frame"] = 1
    if res.raised is not None:
        k, e = res.raised
        sig = exc_sig(e)
        violations.append({"oracle": "C12.O1-raises", "sig": {**sig, "entry": "closed"},
                           "detail": {"frame_index": k, "msg": str(e)[:200]}})
    else:
        exp = {cfg["rx_id"]: [bytes.fromhex(t[1]) for t in trace["telegrams"] if t[0] == "req"]}
        if cfg["mode"] == "snoop":
            exp[cfg["tx_id"]] = [bytes.fromhex(t[1]) for t in trace["telegrams"] if t[0] == "rsp"]
            # sanity of the stub path: the two real stacks must have completed every transfer
            if real_errors or res.received_by_stacks["ecu"] != exp[cfg["rx_id"]] or \
                    res.received_by_stacks["tester"] != exp[cfg["tx_id"]]:
                raise RuntimeError(f"closed-loop sanity: real stacks did not complete all transfers: {real_errors[:3]}")
        for k, rid, p in res.reports:
            if rid not in exp:
                violations.append({"oracle": "C12.O1-reports", "sig": {"what": "unmonitored-id", "entry": "closed"},
                                   "detail": {"id": rid, "frame_index": k}})
                break
        else:
            for mid, want in exp.items():
                got = [p for _, rid, p in res.reports if rid == mid]
                what, pos = classify(want, got)
                if what != "ok":
                    n = len(want[pos]) if pos < len(want) else 0
                    shape = "sf" if n <= 7 else ("sfx" if cfg["tx_dl"] > 8 and n <= cfg["tx_dl"] - 2 else "ff")
                    violations.append({
                        "oracle": "C12.O1-reports", "sig": {"what": what, "shape": shape, "entry": "closed"},
                        "detail": {"id": mid, "position": pos, "mode": cfg["mode"],
                                   "expected_len": len(want[pos]) if pos < len(want) else None,
                                   "got_len": len(got[pos]) if pos < len(got) else None,
                                   "sender_errors": real_errors[:3]}})
                    break
        if cfg["mode"] == "active":
            for k, (fid, d, src) in enumerate(res.delivered):
                if src == "tester" and fid == cfg["rx_id"] and pci_kind(d) == "ff":
                    ok = any(kk == k and aid == cfg["tx_id"] and len(x) >= 1 and x[0] == 0x30
                             for kk, aid, x in res.sent_by_nut)
                    if not ok:
                        violations.append({"oracle": "C12.O3-flow-control", "sig": {"what": "no-fc", "entry": "closed"},
                                           "detail": {"frame_index": k, "sender_errors": real_errors[:3]}})
                        break
            counters["fc_sent"] = len(res.sent_by_nut)
    for v in violations:
        log.ev("oracle", "violation", {"oracle": v["oracle"], "sig": v["sig"]})
    n_ff = sum(1 for f, d, s in res.delivered if pci_kind(d) == "ff")
    return {
        "digest": log.digest(), "events": log.events, "counters": counters, "faults": {}, "probes": probes,
        "states": {h64("closed", cfg["mode"], cfg["blocksize"], cfg["stmin"], cfg["tx_dl"])},
        "sched_sig": h64("closed", tuple(s for _, _, s in res.delivered)),
        "sim_time": clock.now, "violations": violations,
        "nontrivial": n_ff >= 1 and (cfg["mode"] == "active" or len({f for f, _, _ in res.delivered}) > 1),
        "sample": {"closed_loop": cfg, "telegram_lengths": [[t[0], len(t[1]) // 2] for t in trace["telegrams"]],
                   "delivered": [[f, d.hex()[:24], s] for f, d, s in res.delivered[:24]], "n_delivered": len(res.delivered)},
    }


def execute(trace: Dict[str, Any]) -> Dict[str, Any]:
    if trace.get("kind") == "closed":
        return execute_closed(trace)
    log = EventLog()
    clock = W.SimClock()
    frames = real_frames(trace)
    monitored = list(trace["monitored"])
    tx_ids = list(trace["tx_ids"])
    transmitted = {int(k): [bytes.fromhex(x) for x in v] for k, v in trace["transmitted"].items()}
    violations: List[Dict[str, Any]] = []
    probes: Dict[str, int] = {}
    counters: Dict[str, int] = {"frames": len(frames)}
    states = set()
    log.ev("sim", "config", {"monitored": monitored, "tx": tx_ids, "n_frames": len(frames)})

    # model walk over the delivered frames: abstract states, probes, non-triviality
    in_tr: Dict[int, Tuple[int, int]] = {}  # id -> (cf count, remaining)
    first_kind: Dict[Tuple[int, int], str] = {}
    nontrivial = False
    sched = []
    meta_frames = [f for f in trace["frames"] if f[2] != "tn"]
    tel_len = {(i, t): len(p) for i, lst in transmitted.items() for t, p in enumerate(lst)}
    for f in meta_frames:
        fid, kind, tel = f[0], f[2], f[3]
        if not sched or sched[-1] != fid:
            sched.append(fid)
        if kind in ("sf", "sfx", "ff"):
            first_kind[(fid, tel)] = kind
        if kind == "ff":
            n = tel_len.get((fid, tel), 0)
            in_tr[fid] = (0, n - (len(f[1]) // 2 - 2))
        elif kind == "cf" and fid in in_tr:
            c, rem = in_tr[fid]
            c += 1
            rem -= len(f[1]) // 2 - 1
            if c in (16, 32, 48):
                probes[f"sn_wrapped_{c // 16}x"] = probes.get(f"sn_wrapped_{c // 16}x", 0) + 1
            if rem <= 0:
                if rem < 0:
                    probes["last_cf_padded"] = probes.get("last_cf_padded", 0) + 1
                del in_tr[fid]
            else:
                in_tr[fid] = (c, rem)
        else:
            others_in = [i for i in in_tr if i != fid or kind == "fc"]
            if others_in:
                nontrivial = True
            if kind == "fc" and fid in in_tr:
                probes["fc_between_ff_and_cf_same_id"] = probes.get("fc_between_ff_and_cf_same_id", 0) + 1
        if kind in ("cf", "ff", "sf", "sfx") and any(i != fid for i in in_tr):
            nontrivial = True
        if len(in_tr) >= 3:
            probes["three_ids_in_transfer"] = probes.get("three_ids_in_transfer", 0) + 1
        if len(in_tr) >= 2:
            probes["two_ids_in_transfer"] = probes.get("two_ids_in_transfer", 0) + 1
        st = tuple(sorted(((monitored.index(i) if i in monitored else -1), (c + 1) % 16,
                           min(rem // 64, 8)) for i, (c, rem) in in_tr.items()))
        states.add(h64("st", st))
    for k in first_kind.values():
        counters[f"telegrams_{k}"] = counters.get(f"telegrams_{k}", 0) + 1

    ref_reports: Optional[List[Tuple[int, int, bytes]]] = None
    for ent in trace["entries"]:
        res = run_entry(trace, ent, frames, clock)
        counters[f"entry_{ent['ep']}_{ent['kind']}"] = counters.get(f"entry_{ent['ep']}_{ent['kind']}", 0) + 1
        log.ev(res.name, "done", {"fed": res.fed, "reports": [(k, i, p) for k, i, p in res.reports],
                                  "sent": [(k, i, d) for k, i, d in res.sent]}, clock.now)
        ename = "all" if ent is trace["entries"][0] else f"{ent['ep']}-{ent['kind']}"
        if res.raised is not None:
            k, e = res.raised
            sig = exc_sig(e)
            log.ev(res.name, "raised", sig)
            violations.append({"oracle": "C12.O1-raises", "sig": {**sig, "entry": ename},
                               "detail": {"frame_index": k, "entry": res.name, "msg": str(e)[:200]}})
            continue
        # O1: per monitored ID exactly the transmitted payloads, in order, each once
        bad = False
        for k, rid, p in res.reports:
            if rid not in monitored:
                violations.append({"oracle": "C12.O1-reports", "sig": {"what": "unmonitored-id", "entry": ename},
                                   "detail": {"id": rid, "frame_index": k, "entry": res.name}})
                bad = True
                break
        if not bad:
            for mid in monitored:
                got = [p for _, rid, p in res.reports if rid == mid]
                exp = transmitted.get(mid, [])
                what, pos = classify(exp, got)
                if what != "ok":
                    shape = first_kind.get((mid, min(pos, len(exp) - 1)), "?") if exp else "?"
                    violations.append({
                        "oracle": "C12.O1-reports",
                        "sig": {"what": what, "shape": shape, "entry": ename},
                        "detail": {"id": mid, "position": pos, "entry": res.name,
                                   "expected": exp[pos].hex()[:80] if pos < len(exp) else None,
                                   "expected_len": len(exp[pos]) if pos < len(exp) else None,
                                   "got": got[pos].hex()[:80] if pos < len(got) else None,
                                   "got_len": len(got[pos]) if pos < len(got) else None},
                    })
                    bad = True
                    break
        # O2: every entry point sees the same reports (ids and payloads, in order)
        flat = [(rid, p) for _, rid, p in res.reports]
        if ref_reports is None:
            ref_reports = flat  # type: ignore[assignment]
        elif not bad and flat != ref_reports and not violations:
            violations.append({"oracle": "C12.O2-entry-points-agree", "sig": {"entry": ename},
                               "detail": {"entry": res.name}})
        # O3: active decoder answers every first frame with CTS on its tx id
        if ent["kind"].endswith("active") and res.raised is None:
            for k, f in enumerate(meta_frames):
                if f[2] == "ff" and f[0] in monitored:
                    want = tx_ids[monitored.index(f[0])]
                    ok = any(kk == k and aid == want and len(d) >= 1 and d[0] == 0x30
                             for kk, aid, d in res.sent)
                    if not ok:
                        wrong_id = any(kk == k and len(d) >= 1 and d[0] >> 4 == 3 for kk, aid, d in res.sent)
                        violations.append({
                            "oracle": "C12.O3-flow-control",
                            "sig": {"what": "fc-on-wrong-id-or-flag" if wrong_id else "no-fc", "entry": ent["ep"]},
                            "detail": {"frame_index": k, "id": f[0], "expected_tx_id": want, "entry": res.name,
                                       "sent_at_frame": [(aid, d.hex()) for kk, aid, d in res.sent if kk == k]},
                        })
                        break
            counters["fc_sent"] = counters.get("fc_sent", 0) + len(res.sent)
    # de-duplicate violation classes within the run; what the reference entry point
    # (entry "all") already shows is not reported again per entry point
    seen = set()
    ref_seen = set()
    uniq = []
    for v in violations:
        core = (v["oracle"], tuple(sorted((k, x) for k, x in v["sig"].items() if k != "entry")))
        if v["sig"].get("entry") == "all":
            ref_seen.add(core)
        elif core in ref_seen:
            continue
        key = (v["oracle"], tuple(sorted(v["sig"].items())))
        if key not in seen:
            seen.add(key)
            uniq.append(v)
    for v in uniq:
        log.ev("oracle", "violation", {"oracle": v["oracle"], "sig": v["sig"]})
    return {
        "digest": log.digest(),
        "events": log.events,
        "counters": counters,
        "faults": {},
        "probes": probes,
        "states": states,
        "sched_sig": h64("sched", tuple(sched)),
        "sim_time": clock.now + 0.0005 * len(frames),
        "violations": uniq,
        "nontrivial": nontrivial,
        "sample": {"monitored": monitored, "frames": [[f[0], f[1], f[2]] for f in meta_frames[:24]],
                   "n_frames": len(meta_frames),
                   "transmitted_lengths": {str(k): [len(p) for p in v] for k, v in transmitted.items()},
                   "entries": [f"{e['ep']}-{e['kind']}" for e in trace["entries"]]},
    }


# ------------------------------------------------------------------ minimisation
def trace_size(trace: Dict[str, Any]) -> int:
    if trace.get("kind") == "closed":
        return sum(len(t[1]) // 2 for t in trace["telegrams"])
    return len(trace["frames"])


def drop_telegram(trace: Dict[str, Any], mid: int, t: int) -> Dict[str, Any]:
    new = dict(trace)
    frames = []
    for f in trace["frames"]:
        if f[0] == mid and f[3] == t:
            continue
        if f[0] == mid and f[3] > t:
            f = list(f)
            f[3] -= 1
        frames.append(f)
    new["frames"] = frames
    tr = {k: list(v) for k, v in trace["transmitted"].items()}
    del tr[str(mid)][t]
    new["transmitted"] = tr
    return new


def shrink_closed(trace: Dict[str, Any], still_fails) -> Dict[str, Any]:
    from ..can import closedloop as CL
    budget = ShrinkBudget(200)
    cur = trace
    # fewer telegrams, then shorter ones
    tels = ddmin_list(cur["telegrams"], lambda t: still_fails({**cur, "telegrams": t}), budget, min_len=1)
    cur = {**cur, "telegrams": tels}
    for i in range(len(cur["telegrams"])):
        t = cur["telegrams"][i]
        n = len(t[1]) // 2
        for m in (1, 7, 8, n // 2, n - 1):
            if 1 <= m < n and not budget.spent():
                cand = {**cur, "telegrams": cur["telegrams"][:i] + [[t[0], t[1][:2 * m]] + t[2:]] + cur["telegrams"][i + 1:]}
                budget.tests += 1
                if still_fails(cand):
                    cur = cand
                    break
    # if the delivered frames reproduce the violation without the closed loop, report that
    res = CL.run_closed_loop(cur["cfg"], cur["telegrams"], cur["sched_seed"], cur.get("faults", []), W.SimClock())
    return cur


def shrink(trace: Dict[str, Any], still_fails) -> Dict[str, Any]:
    if trace.get("kind") == "closed":
        return shrink_closed(trace, still_fails)
    budget = ShrinkBudget(1500)
    cur = trace
    # 1. fewer entry points
    if len(cur["entries"]) > 1:
        for ent in list(cur["entries"]):
            cand = dict(cur)
            cand["entries"] = [ent]
            budget.tests += 1
            if still_fails(cand):
                cur = cand
                break
    # 2. drop whole telegrams
    changed = True
    while changed and not budget.spent():
        changed = False
        for mid_s, lst in list(cur["transmitted"].items()):
            for t in range(len(lst) - 1, -1, -1):
                cand = drop_telegram(cur, int(mid_s), t)
                budget.tests += 1
                if still_fails(cand):
                    cur = cand
                    changed = True
                    break
            if changed:
                break
    # 3. drop frames that carry no telegram data (fc, noise, text noise)
    aux = [i for i, f in enumerate(cur["frames"]) if f[2] in ("fc", "noise", "tn")]
    if aux:
        keep_aux = ddmin_list(aux, lambda keep: still_fails(
            {**cur, "frames": [f for i, f in enumerate(cur["frames"]) if f[2] not in ("fc", "noise", "tn") or i in keep]}),
            budget)
        cur = {**cur, "frames": [f for i, f in enumerate(cur["frames"])
                                 if f[2] not in ("fc", "noise", "tn") or i in keep_aux]}
    # 4. drop monitored IDs without telegrams
    for mid_s, lst in list(cur["transmitted"].items()):
        if not lst and len(cur["monitored"]) > 1:
            i = cur["monitored"].index(int(mid_s))
            cand = dict(cur)
            cand["monitored"] = [m for j, m in enumerate(cur["monitored"]) if j != i]
            cand["tx_ids"] = [m for j, m in enumerate(cur["tx_ids"]) if j != i]
            cand["transmitted"] = {k: v for k, v in cur["transmitted"].items() if k != mid_s}
            cand["frames"] = [f for f in cur["frames"] if f[0] != int(mid_s)]
            budget.tests += 1
            if still_fails(cand):
                cur = cand
    # 5. de-interleave: sort frames by ID if the violation survives (simplest schedule)
    cand = dict(cur)
    order = {m: i for i, m in enumerate(cur["monitored"])}
    cand["frames"] = sorted(cur["frames"], key=lambda f: order.get(f[0], 99))
    if cand["frames"] != cur["frames"]:
        budget.tests += 1
        if still_fails(cand):
            cur = cand
    return cur
