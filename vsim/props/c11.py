"""C11 - writing a database to PDX and loading it back preserves it.

The simulator owns the storage and clock seams around the writer and the loaders:
archive member order, directory enumeration order, file-list order, the load entry
point, and the wall clock read by the writer (which jumps between the two writes).
Workload: a base database (shipped somersault / somersault_modified / a zoo database)
with, in most runs, one seeded single-attribute perturbation.
"""
import dataclasses
import datetime as _datetime
import enum
import io
import json
import os
import re
import shutil
import sys
import tempfile
import types
import zipfile
from typing import Any, Dict, List, Optional, Tuple

from ..can import world as W
from ..core import worker
from ..core.evlog import EventLog, canon, exc_sig
from ..core.seeds import Streams, h64, weighted
from ..core.shrink import ShrinkBudget

META: Dict[str, Any] = {
    "id": "C11",
    "level": "exploration",
    "pools": [{"backend": "c"}, {"backend": "py"}, {"backend": "c", "optimize": 1}],
    "tiers": {
        "quick": {"runs": 2600, "chunk": 12, "wall": 240, "chunk_wall": 400},
        "thorough": {"runs": 120000, "chunk": 30, "wall": 1800, "chunk_wall": 900},
    },
    "selftest_runs": 4,
    "rule": ("one run = base database (somersault, somersault_modified or a zoo database, single- or "
             "multi-file) + at most one seeded single-attribute perturbation (the systematic part of a "
             "batch walks (element class, field) pairs in a fixed order) -> write P1 at simulated time T1 "
             "-> re-pack with a seeded member order -> load via a seeded entry point -> write P2 after a "
             "clock jump -> load via another entry point / order; oracle: well-formed XML, structural "
             "equality db0=db1=db2 (perturbed value included), byte-identical ODX members of P1 and P2, "
             "equal encode/decode behaviour. Non-trivial: the perturbation was accepted (survived an "
             "in-memory refresh) or the run used a non-default member order and entry point. "
             "Distinct = distinct event-log digest."),
    "state_measure": "(element class, field, value class, outcome) tuples and (entry point pair, order class, clock jump kind) tuples",
    "sim_time_note": "simulated seconds between the first and the second write (clock jumps forwards and backwards)",
    "components": {
        "real": ["odxtools.write_pdx_file (jinja2 rendering, zipfile)", "Database.add_pdx_file / add_odx_file / refresh",
                 "load_pdx_file / load_file / load_files / load_directory", "ElementTree parsing, all from_et parsers"],
        "stub": ["wall clock seen by odxtools.writepdxfile (time, datetime.now)", "os.listdir seen by odxtools.loadfile",
                 "archive re-packer (member order)", "jinja2.Environment construction is cached per worker (templates compiled once; rendering is real)"],
    },
    "assumptions": ["Database.short_name and the keys of auxiliary_files are outside the oracle (DESIGN.md §9)",
                    "perturbations that do not survive an in-memory refresh() are discarded (not valid databases)",
                    "reload failures in the parser's own value check for a plain perturbation are counted as 'rejected', not gated"],
}

STATE: Dict[str, Any] = {}
SKIP_FIELDS = {"odx_id", "ref_id", "ref_docs", "doc_fragments", "doc_name", "doc_type", "local_id"}
# (class name suffix, field): fields the parser does not read from the element itself but
# derives from its context (the enclosing DOP's types, the XML tag), and short names that
# double as ODX document-fragment names of all contained IDs.  Setting one of them alone
# yields an internally inconsistent object, not "a database".  Found by reading the
# from_et() parsers; see DESIGN.md §9.
DERIVED = [
    ("CompuMethod", "internal_type"), ("CompuMethod", "physical_type"), ("CompuMethod", "category"),
    ("CompuScale", "domain_type"), ("CompuScale", "range_type"), ("CompuConst", "data_type"),
    ("CompuDefaultValue", "data_type"), ("CompuInverseValue", "data_type"),
    ("Limit", "value_type"), ("InternalConstr", "value_type"), ("ScaleConstr", "value_type"),
    ("CompuRationalCoeffs", "value_type"), ("Raw", "variant_type"), ("Response", "response_type"),
    ("DiagLayerContainer", "short_name"), ("Raw", "short_name"), ("ComparamSubset", "short_name"),
    ("ComparamSpec", "short_name"),
    # read from the element, but correlated with sibling fields whose lexical form depends on
    # it (CODED-VALUE, limits, compu method types): changing it alone is not a valid database
    ("LengthType", "base_data_type"), ("LengthInfoType", "base_data_type"), ("PhysicalType", "base_data_type"),
]


# fields the parser fills from Element.text (None for an empty element): "" is not a value a loaded
# database can hold there
NOT_EMPTY = {("Limit", "value_raw")}


def is_derived(cls: str, field: str) -> bool:
    return any(cls.endswith(c) and field == f for c, f in DERIVED)
FREE_TEXT_FIELDS = {"oid", "long_name", "semantic", "display_name", "key_label", "struct_label", "short_label",
                    "vt", "display_trouble_code", "text", "role", "department", "address", "zip", "city", "phone",
                    "fax", "email", "info", "revision_label", "state", "tool", "reason", "caption", "si",
                    "category", "syntax", "encryption", "revision", "value", "teammember", "ti",
                    "semantic_info", "text_identifier", "href", "description", "company_revision_info",
                    "change", "doc_type", "doc_label", "doc_revision_label"}
META_TEXT = 'v<&>"\'äß'
META_XHTML = "<p>a &amp; b &lt; c ä</p>"
# white space other than the blank: survives in XML attribute values only if written as character references
WS_TEXT = "a\tb\nc\rd e"
_WS_OK: Optional[set] = None


def ws_allowed(cls: str, field: str) -> bool:
    """The 'ws' value class (TAB / LF / CR inside a value) is restricted to the (class, field) pairs validated on
    the pinned tree (vsim/props/c11_ws_ok.json, tools/triage_ws.py): those are the values written as XML attributes
    (where the writer escapes them); in element content a CR is legitimately normalised by any XML parser."""
    global _WS_OK
    if os.environ.get("VERIF_C11_ALL_WS"):
        return True
    if _WS_OK is None:
        p = os.path.join(os.path.dirname(os.path.abspath(__file__)), "c11_ws_ok.json")
        _WS_OK = set(json.load(open(p))) if os.path.exists(p) else set()
    return f"{cls}.{field}" in _WS_OK


def pool_of(rs: int, index: int) -> int:
    return h64("pool", rs) % 3


# ------------------------------------------------------------------ seams
class SimClock:

    def __init__(self) -> None:
        self.now = 1_700_000_000.0


class _FakeDT(_datetime.datetime):

    @classmethod
    def now(cls, tz=None):  # type: ignore[override]
        return _datetime.datetime.fromtimestamp(STATE["clock"].now)


class _Shim:
    """Module stand-in: overrides a few attributes, passes everything else through."""

    def __init__(self, real, **over):
        self.__dict__["_real"] = real
        self.__dict__.update(over)

    def __getattr__(self, name):
        return getattr(self.__dict__["_real"], name)


class _JinjaShim:
    """jinja2 as seen by odxtools.writepdxfile: Environment construction is cached (speed
    only; globals are re-assigned by the writer on every call, rendering is real)."""

    def __init__(self, real):
        self._real = real
        self._envs: Dict[str, Any] = {}

    def __getattr__(self, name):
        return getattr(self._real, name)

    def Environment(self, loader=None, **kw):  # noqa: N802
        key = repr(getattr(loader, "searchpath", None)) + repr(sorted(kw.items()))
        env = self._envs.get(key)
        if env is None:
            env = self._real.Environment(loader=loader, **kw)
            self._envs[key] = env
        return env


def worker_init() -> None:
    import time as _time

    import odxtools
    import odxtools.loadfile as lf
    import odxtools.writepdxfile as wp
    STATE["clock"] = SimClock()
    STATE["listdir_perm"] = None

    def fake_listdir(path):
        names = sorted(os.listdir(path))
        perm = STATE.get("listdir_perm")
        if perm is not None:
            r = __import__("random").Random(perm)
            r.shuffle(names)
        return names

    wp.time = _Shim(_time, time=lambda: STATE["clock"].now)  # type: ignore[attr-defined]
    wp.datetime = _Shim(_datetime, datetime=_FakeDT)  # type: ignore[attr-defined]
    wp.jinja2 = _JinjaShim(wp.jinja2)  # type: ignore[attr-defined]
    lf.os = _Shim(os, listdir=fake_listdir)  # type: ignore[attr-defined]
    repo = worker.repo_dir()
    STATE["bases"] = {
        "somersault": os.path.join(repo, "examples", "somersault.pdx"),
        "somersault_modified": os.path.join(repo, "examples", "somersault_modified.pdx"),
    }
    STATE["odxtools"] = odxtools
    # enumerate perturbation targets once per base (deterministic walk)
    STATE["targets"] = {}
    STATE["base_errors"] = {}
    for name in list(STATE["bases"]) + ["somersault_renamed", "zoo0", "zoo1", "zoo2", "zoo3", "zoo6", "zoo7", "zoo8", "zoo9"]:
        try:
            with W.quiet():
                db = load_base(name)
            STATE["targets"][name] = enumerate_targets(db)
        except Exception as e:  # noqa: BLE001 - reported by the runs that use this base
            STATE["base_errors"][name] = exc_sig(e)
            STATE["targets"][name] = []
    pairs = []
    seen = set()
    for name in sorted(STATE["targets"]):
        for t in STATE["targets"][name]:
            key = (t["cls"], t["field"])
            if key not in seen:
                seen.add(key)
                pairs.append((name, key, "plain"))
                if t["kind"] == "populate" and populate_meta_allowed(t["cls"], t["field"]):
                    pairs.append((name, key, "meta"))
                if t["kind"] in ("populate", "retarget"):
                    continue
                if t["kind"] == "leaf" and t["field"] in FREE_TEXT_FIELDS and "str" in t["type"]:
                    pairs.append((name, key, "meta"))
                    if ws_allowed(t["cls"], t["field"]):
                        pairs.append((name, key, "ws"))
                if t["kind"] == "leaf" and "str" in t["type"] and "Union" not in t["type"]:
                    pairs.append((name, key, "empty"))
    STATE["pairs"] = pairs


# ------------------------------------------------------------------ bases
def renamed_pdx_blob(src: str, old_name: str, new_name: str) -> bytes:
    """The same database with its DIAG-LAYER-CONTAINER renamed (a different database that has
    the same layer names): container short name, DOCREFs to it and the member name."""
    from xml.etree import ElementTree
    out = io.BytesIO()
    with zipfile.ZipFile(src) as zin, zipfile.ZipFile(out, "w", zipfile.ZIP_DEFLATED) as zout:
        for n in zin.namelist():
            data = zin.read(n)
            if n.lower().endswith(".odx-d"):
                root = ElementTree.fromstring(data)
                dlc = root.find("DIAG-LAYER-CONTAINER")
                if dlc is not None and dlc.findtext("SHORT-NAME") == old_name:
                    dlc.find("SHORT-NAME").text = new_name  # type: ignore[union-attr]
                    for el in root.iter():
                        if el.get("DOCREF") == old_name and el.get("DOCTYPE") == "CONTAINER":
                            el.set("DOCREF", new_name)
                    data = ElementTree.tostring(root, encoding="utf-8", xml_declaration=True)
                    n = new_name + ".odx-d"
            zout.writestr(n, data)
    return out.getvalue()


def load_base(name: str):
    odxtools = STATE["odxtools"]
    if name in STATE["bases"]:
        return odxtools.load_pdx_file(STATE["bases"][name])
    if name == "somersault_renamed":
        blob = STATE.setdefault("zoo_pdx", {}).get(name)
        if blob is None:
            blob = renamed_pdx_blob(STATE["bases"]["somersault"], "somersault", "somersault_v2")
            STATE["zoo_pdx"][name] = blob
        from odxtools.database import Database
        db = Database()
        db.add_pdx_file(io.BytesIO(blob))
        db.refresh()
        return db
    if name.startswith("zoo"):
        # the zoo database as the parser sees it: built once, written once, loaded per run
        blob = STATE.setdefault("zoo_pdx", {}).get(name)
        if blob is None:
            d = tempfile.mkdtemp(prefix="vsim-c11-zoo-")
            try:
                p = os.path.join(d, "zoo.pdx")
                odxtools.write_pdx_file(p, build_zoo_db(int(name[3:])))
                with open(p, "rb") as f:
                    blob = f.read()
            finally:
                shutil.rmtree(d, ignore_errors=True)
            STATE["zoo_pdx"][name] = blob
        from odxtools.database import Database
        db = Database()
        db.add_pdx_file(io.BytesIO(blob))
        db.refresh()
        return db
    raise ValueError(name)


def build_split_db(parent_name: str = "zsplit_base", child_name: str = "zsplit_ecu",
                   parent_cont: str = "zsplit_parents", child_cont: str = "zsplit_children"):
    """A database split over two documents with inheritance ACROSS them: a base variant in container
    zsplit_parents, an ECU variant in container zsplit_children whose PARENT-REF points into the other
    document (the child must load whatever the order of the two files)."""
    from odxtools.database import Database
    from odxtools.diaglayercontainer import DiagLayerContainer
    from odxtools.diaglayers.basevariant import BaseVariant
    from odxtools.diaglayers.ecuvariant import EcuVariant
    from odxtools.nameditemlist import NamedItemList
    from odxtools.odxlink import DocType, OdxDocFragment, OdxLinkId, OdxLinkRef
    from odxtools.parentref import ParentRef

    from ..zoo.mk import LayerBuilder, mk
    db = Database()
    pb = LayerBuilder(parent_name, "base", container=parent_cont)
    u8 = pb.dop("u8", pb.slt(bits=8))
    u16 = pb.dop("u16", pb.slt(bits=16))
    rq = pb.request("rq_inherited", [pb.coded_const("sid", 0x22), pb.value("did", u16)])
    rs = pb.response("rs_inherited", [pb.coded_const("sid", 0x62), pb.matching_request("did", 1, 2), pb.value("val", u8)])
    pb.service("inherited_service", rq, [rs], [])
    rq2 = pb.request("rq_overridden", [pb.coded_const("sid", 0x23), pb.value("x", u8)])
    pb.service("overridden_service", rq2, [], [])
    parent_raw = pb.raw()
    parent = BaseVariant(diag_layer_raw=parent_raw)
    cb = LayerBuilder(child_name, "ecu", container=child_cont)
    cu8 = cb.dop("cu8", cb.slt(bits=8))
    crq = cb.request("rq_own", [cb.coded_const("sid", 0x31), cb.value("y", cu8)])
    cb.service("own_service", crq, [], [])
    crq2 = cb.request("rq_overridden", [cb.coded_const("sid", 0x23), cb.value("x", cu8), cb.value("z", cu8)])
    cb.service("overridden_service", crq2, [], [])
    pref = ParentRef(layer_ref=OdxLinkRef.from_id(parent_raw.odx_id), not_inherited_diag_comms=[],
                     not_inherited_variables=[], not_inherited_dops=[], not_inherited_tables=[],
                     not_inherited_global_neg_responses=[])
    child = EcuVariant(diag_layer_raw=cb.raw(parent_refs=[pref]))
    for cname, attr, layer in ((child_cont, "ecu_variants", child), (parent_cont, "base_variants", parent)):
        frag = OdxDocFragment(cname, DocType.CONTAINER)
        dlc = mk(DiagLayerContainer, odx_id=OdxLinkId(f"{cname}.id", [frag]), short_name=cname,
                 **{attr: NamedItemList([layer])})
        db.diag_layer_containers.append(dlc)
    db.refresh()
    return db


def build_zoo_db(seed: int):
    """A zoo database: 1-2 containers with an ECU variant each built from the zoo shapes."""
    if seed == 9:
        return build_split_db()
    if seed in (6, 7):
        # the deterministic matrix layers as a database: every computation-method category (7), variable-length
        # objects and structures / fields (6)
        from odxtools.database import Database
        from odxtools.diaglayercontainer import DiagLayerContainer
        from odxtools.diaglayers.ecuvariant import EcuVariant
        from odxtools.nameditemlist import NamedItemList
        from odxtools.odxlink import DocType, OdxDocFragment, OdxLinkId

        from ..zoo.layers import build_matrix_builder
        from ..zoo.mk import mk
        db = Database()
        for kind in (("compu",) if seed == 7 else ("lengths", "structs", "consts", "features")):
            cname = f"zoomatrix_{kind}"
            b = build_matrix_builder(kind, container=cname)
            frag = OdxDocFragment(cname, DocType.CONTAINER)
            dlc = mk(DiagLayerContainer, odx_id=OdxLinkId(f"{cname}.id", [frag]), short_name=cname,
                     ecu_variants=NamedItemList([EcuVariant(diag_layer_raw=b.raw())]))
            db.diag_layer_containers.append(dlc)
        db.refresh()
        return db
    if seed == 8:
        # the same with legal short names that cannot be used as Python identifiers / collide with members of
        # the name lists (whoever looks layers up by name must use the short name, not the mangled key)
        return build_split_db("values", "1st_gen", "index", "class")
    from odxtools.database import Database
    from odxtools.diaglayercontainer import DiagLayerContainer
    from odxtools.diaglayers.ecuvariant import EcuVariant
    from odxtools.nameditemlist import NamedItemList
    from odxtools.odxlink import DocType, OdxDocFragment, OdxLinkId

    from ..zoo.layers import build_zoo_builder
    from ..zoo.mk import mk
    db = Database()
    n_cont = 1 + seed % 2
    for c in range(n_cont):
        cname = f"zoocont{seed}_{c}"
        b, truth, used = build_zoo_builder(seed * 10 + c, name=f"zoolayer{seed}_{c}", n_shapes=5, container=cname)
        frag = OdxDocFragment(cname, DocType.CONTAINER)
        raw = b.raw()
        layer = EcuVariant(diag_layer_raw=raw)
        dlc = mk(DiagLayerContainer, odx_id=OdxLinkId(f"{cname}.id", [frag]), short_name=cname,
                 ecu_variants=NamedItemList([layer]))
        db.diag_layer_containers.append(dlc)
    db.refresh()
    return db


# ------------------------------------------------------------------ walking the object graph
def is_leaf(v: Any) -> bool:
    return v is None or isinstance(v, (str, int, float, bool, bytes, enum.Enum))


def public_fields(obj: Any):
    for f in dataclasses.fields(obj):
        if f.name.startswith("_") or not f.init:
            continue
        yield f


def roots(db) -> List[Tuple[str, Any]]:
    return [("diag_layer_containers", db.diag_layer_containers), ("comparam_subsets", db.comparam_subsets),
            ("comparam_specs", db.comparam_specs)]


def walk(v: Any, path: List[Any], visit, seen: set, owner=None, fld=None) -> None:
    if is_leaf(v):
        visit(path, v, owner, fld)
        return
    if isinstance(v, (list, tuple)):
        visit(path, v, owner, fld)
        for i, x in enumerate(v):
            walk(x, path + [i], visit, seen, v, None)
        return
    if isinstance(v, dict):
        for k in v:
            walk(v[k], path + [("key", str(k))], visit, seen, v, None)
        return
    if dataclasses.is_dataclass(v) and not isinstance(v, type):
        if id(v) in seen:
            return
        seen.add(id(v))
        for f in public_fields(v):
            val = getattr(v, f.name)
            if type(val).__name__ == "OdxLinkRef":
                visit(path + [f.name], val, v, f)
                continue
            walk(val, path + [f.name], visit, seen, v, f)
        return
    visit(path, v, owner, fld)


def type_str(f) -> str:
    t = f.type if isinstance(f.type, str) else str(f.type)
    return t.replace("typing.", "")


_POPULATE_OK: Optional[set] = None


def populate_allowed(cls: str, field: str) -> bool:
    """'populate' perturbations are restricted to the (class, field) pairs that were validated to round-trip on
    the pinned tree (vsim/props/c11_populate_ok.json, produced by tools/triage_populate.py): the synthesizer is
    type-directed and may build elements that are not valid ODX, so a failing pair is not evidence by itself."""
    global _POPULATE_OK
    if os.environ.get("VERIF_C11_ALL_POPULATE"):
        return True
    if _POPULATE_OK is None:
        p = os.path.join(os.path.dirname(os.path.abspath(__file__)), "c11_populate_ok.json")
        _POPULATE_OK = set(json.load(open(p))) if os.path.exists(p) else set()
    return f"{cls}.{field}" in _POPULATE_OK


_RETARGET_OK: Optional[set] = None


def retarget_allowed(cls: str, field: str) -> bool:
    """'retarget' perturbations (a *-REF pointed at the object that another element of the same class
    references) are restricted to the (class, field) pairs validated on the pinned tree
    (vsim/props/c11_retarget_ok.json): re-targeting some references is not meaningful ODX."""
    global _RETARGET_OK
    if os.environ.get("VERIF_C11_ALL_RETARGET"):
        return True
    if _RETARGET_OK is None:
        p = os.path.join(os.path.dirname(os.path.abspath(__file__)), "c11_retarget_ok.json")
        _RETARGET_OK = set(json.load(open(p))) if os.path.exists(p) else set()
    return f"{cls}.{field}" in _RETARGET_OK


_POPULATE_META_OK: Optional[set] = None


def populate_meta_allowed(cls: str, field: str) -> bool:
    """'populate' with XML metacharacters in every free-text value of the synthesized element: restricted to the
    pairs validated on the (repaired) pinned tree, vsim/props/c11_populate_meta_ok.json (tools/triage_populate.py meta)."""
    global _POPULATE_META_OK
    if os.environ.get("VERIF_C11_ALL_POPULATE"):
        return True
    if _POPULATE_META_OK is None:
        p = os.path.join(os.path.dirname(os.path.abspath(__file__)), "c11_populate_meta_ok.json")
        _POPULATE_META_OK = set(json.load(open(p))) if os.path.exists(p) else set()
    return f"{cls}.{field}" in _POPULATE_META_OK


def context_key(owner: Any) -> str:
    """Coarse context of an element (used to pick instances of a (class, field) pair in different
    contexts): for parameters the kind and base type of the referenced data object."""
    dop = getattr(owner, "_dop", None)
    if dop is None:
        return ""
    dct = getattr(dop, "diag_coded_type", None)
    pt = getattr(dop, "physical_type", None)
    cm = getattr(dop, "compu_method", None)
    return ":".join([type(dop).__name__, dct.base_data_type.name if dct is not None else "", type(dct).__name__,
                     pt.base_data_type.name if pt is not None else "", type(cm).__name__ if cm is not None else ""])


def enumerate_targets(db) -> List[Dict[str, Any]]:
    out: List[Dict[str, Any]] = []

    def visit(path, v, owner, fld):
        if fld is None and isinstance(owner, list) and is_leaf(v) and v is not None and len(path) >= 2 \
                and isinstance(path[-2], str) and not isinstance(v, bool):
            # an item of a list of primitives (e.g. the numerators of rational coefficients)
            holder = last_dc[0]
            if holder is not None and not is_derived(type(holder).__name__, path[-2]) and path[-2] not in SKIP_FIELDS \
                    and not path[-2].endswith(("_refs", "_snrefs")):
                out.append({"path": path, "cls": type(holder).__name__, "field": path[-2] + "[]",
                            "type": type(v).__name__, "kind": "leaf"})
            return
        if fld is None or owner is None or not dataclasses.is_dataclass(owner):
            return
        last_dc[0] = owner
        name = fld.name
        if name.endswith("_ref") and type(v).__name__ == "OdxLinkRef" and name not in SKIP_FIELDS and \
                (retarget_allowed(type(owner).__name__, name) or retarget_allowed(type(owner).__name__, name + "@refresh")):
            # a reference that the client may point at another object of the database
            out.append({"path": path, "cls": type(owner).__name__, "field": name, "type": "OdxLinkRef",
                        "kind": "retarget", "ctx": context_key(owner),
                        "ref": [v.ref_id, [[d.doc_name, str(d.doc_type)] for d in v.ref_docs]]})
            return
        if name in SKIP_FIELDS or name.endswith(("_ref", "_refs", "_snref", "_snrefs", "_snpathref", "_snpathrefs")):
            return
        if type(owner).__name__ in ("OdxLinkId", "OdxLinkRef", "OdxDocFragment"):
            return
        if is_derived(type(owner).__name__, name):
            return
        t = type_str(fld)
        if is_leaf(v) and not (v is None and not any(x in t for x in ("Optional[str]", "Optional[bool]", "Optional[int]", "Optional[float]"))):
            out.append({"path": path, "cls": type(owner).__name__, "field": name, "type": t, "kind": "leaf",
                        "ctx": context_key(owner)})
        elif isinstance(v, list) and v and all(dataclasses.is_dataclass(x) and not hasattr(x, "odx_id") for x in v):
            out.append({"path": path, "cls": type(owner).__name__, "field": name, "type": t, "kind": "list"})
        if (v is None or (isinstance(v, list) and len(v) == 0)) and _dc_in_type(fld.type) is not None and \
                populate_allowed(type(owner).__name__, name):
            # an element the base database does not contain at this place: can be populated
            out.append({"path": path, "cls": type(owner).__name__, "field": name, "type": t, "kind": "populate",
                        "ctx": context_key(owner)})

    seen: set = set()
    last_dc: List[Any] = [None]
    for rname, r in roots(db):
        walk(r, [rname], visit, seen)
    return out


# ------------------------------------------------------------------ populating absent elements
class Unsynthesizable(Exception):
    pass


def _dc_in_type(tp) -> Optional[Tuple[str, Any]]:
    """('opt'|'list'|'nil', dataclass) if tp is Optional[DC], List[DC] or NamedItemList[DC]."""
    import typing
    origin = typing.get_origin(tp)
    args = typing.get_args(tp)
    if origin is typing.Union and len(args) == 2 and type(None) in args:
        inner = [a for a in args if a is not type(None)][0]
        if isinstance(inner, type) and dataclasses.is_dataclass(inner):
            return "opt", inner
        return None
    if origin in (list, List) and args and isinstance(args[0], type) and dataclasses.is_dataclass(args[0]):
        return "list", args[0]
    if origin is not None and getattr(origin, "__name__", "") == "NamedItemList" and args and \
            isinstance(args[0], type) and dataclasses.is_dataclass(args[0]):
        return "nil", args[0]
    return None


def synthesize(cls, frags, index: Dict[str, List[Any]], counter: List[int], depth: int = 0, meta: bool = False):
    """Type-directed construction of an instance of an odxtools dataclass that the base database does
    not contain: primitives get visible values, references point to an existing object of the class the
    field name suggests, nested required elements are synthesized recursively (depth-limited)."""
    import typing

    from odxtools.nameditemlist import NamedItemList
    from odxtools.odxlink import OdxLinkId, OdxLinkRef
    if depth > 3 or cls.__name__ in ("OdxDocFragment",):
        raise Unsynthesizable(cls.__name__)
    kw = {}
    for f in dataclasses.fields(cls):
        if not f.init:
            continue
        tp = f.type
        origin = typing.get_origin(tp)
        args = typing.get_args(tp)
        optional = origin is typing.Union and type(None) in args
        inner = [a for a in args if a is not type(None)][0] if optional and len(args) == 2 else tp
        counter[0] += 1
        n = counter[0]
        if inner is str:
            kw[f.name] = f"V_{f.name}_{n}" if f.name in ("short_name",) else (f"v {f.name} {n}" if f.name in FREE_TEXT_FIELDS else f"v{n}")
            if meta and f.name in FREE_TEXT_FIELDS:
                kw[f.name] = META_XHTML if (cls.__name__ == "Description" and f.name == "text") else META_TEXT + str(n)
        elif inner is bool:
            kw[f.name] = True
        elif inner is int:
            kw[f.name] = 1 + n % 3
        elif inner is float:
            kw[f.name] = 1.5
        elif inner is bytes:
            kw[f.name] = b"\x01"
        elif isinstance(inner, type) and issubclass(inner, enum.Enum):
            kw[f.name] = list(inner)[0]
        elif inner is OdxLinkId:
            kw[f.name] = OdxLinkId(f"synth.{cls.__name__}.{n}", list(frags))
        elif inner is OdxLinkRef:
            if optional and not f.name.endswith("_ref"):
                kw[f.name] = None
                continue
            base = f.name[:-4] if f.name.endswith("_ref") else f.name
            want = base.replace("_", "").lower()
            cands = next((objs for cname, objs in sorted(index.items()) if cname.lower() == want and objs), [])
            # prefer a target in the same document (the writer emits ID-REF without DOCREF in most places)
            doc = frags[0].doc_name if frags else None
            same = [o for o in cands if o.odx_id.doc_fragments and o.odx_id.doc_fragments[0].doc_name == doc]
            tgt = (same or cands or [None])[0]
            if tgt is None:
                if optional:
                    kw[f.name] = None
                    continue
                raise Unsynthesizable(f"{cls.__name__}.{f.name}")
            kw[f.name] = OdxLinkRef.from_id(tgt.odx_id)
        elif typing.get_origin(inner) in (list, List):
            kw[f.name] = []
            # one item for lists of plain (non-identifiable) elements, e.g. the SD entries of a special data group
            item_tps = typing.get_args(inner)
            cand_tps = list(typing.get_args(item_tps[0])) if item_tps and typing.get_origin(item_tps[0]) is typing.Union \
                else list(item_tps)
            for it_tp in reversed(cand_tps):
                if isinstance(it_tp, type) and dataclasses.is_dataclass(it_tp) and depth < 3 and \
                        it_tp.__name__ not in ("OdxLinkRef", "OdxLinkId", "OdxDocFragment") and \
                        not any(ff.name == "odx_id" or "OdxLinkRef" in str(ff.type) for ff in dataclasses.fields(it_tp)):
                    try:
                        kw[f.name] = [synthesize(it_tp, frags, index, counter, depth + 1, meta)]
                    except Exception:  # noqa: BLE001 - an item that cannot be synthesized: the list stays empty
                        kw[f.name] = []
                    break
        elif typing.get_origin(inner) is not None and getattr(typing.get_origin(inner), "__name__", "") == "NamedItemList":
            kw[f.name] = NamedItemList()
        elif typing.get_origin(inner) in (dict, Dict):
            kw[f.name] = {}
        elif isinstance(inner, type) and dataclasses.is_dataclass(inner):
            kw[f.name] = None if optional else synthesize(inner, frags, index, counter, depth + 1, meta)
        elif optional:
            kw[f.name] = None
        else:
            raise Unsynthesizable(f"{cls.__name__}.{f.name}: {tp}")
    return cls(**kw)


def identifiable_index(db) -> Dict[str, List[Any]]:
    idx: Dict[str, List[Any]] = {}

    def visit(path, v, owner, fld):
        pass

    seen: set = set()

    def rec(v):
        if is_leaf(v):
            return
        if isinstance(v, (list, tuple)):
            for x in v:
                rec(x)
            return
        if isinstance(v, dict):
            for x in v.values():
                rec(x)
            return
        if dataclasses.is_dataclass(v) and not isinstance(v, type):
            if id(v) in seen:
                return
            seen.add(id(v))
            if hasattr(v, "odx_id") and type(v).__name__ not in ("OdxLinkRef",):
                idx.setdefault(type(v).__name__, []).append(v)
            for f in public_fields(v):
                rec(getattr(v, f.name))

    for _, r in roots(db):
        rec(r)
    return idx


def nearest_frags(db, path: List[Any]):
    cur: Any = db
    frags = None
    for step in path:
        cur = step_into(cur, step)
        oid = getattr(cur, "odx_id", None)
        if oid is not None and hasattr(oid, "doc_fragments"):
            frags = oid.doc_fragments
    return frags or []


def get_path(db, path: List[Any]) -> Tuple[Any, Any]:
    """Returns (owner, last step)."""
    cur: Any = db
    for step in path[:-1]:
        cur = step_into(cur, step)
    return cur, path[-1]


def step_into(cur: Any, step: Any) -> Any:
    if isinstance(step, int):
        return cur[step]
    if isinstance(step, (list, tuple)) and step and step[0] == "key":
        return cur[step[1]]
    return getattr(cur, step)


def lexical_variant(v: str, n: int) -> str:
    if re.fullmatch(r"-?[0-9]+", v):
        return str(int(v) + 1 + n)
    if re.fullmatch(r"-?[0-9]*\.[0-9]+([eE][-+]?[0-9]+)?", v):
        return repr(float(v) + 0.5)
    if re.fullmatch(r"[A-Za-z_][A-Za-z0-9_]*", v):
        return v + "_v" + str(n)
    if re.fullmatch(r"[A-Za-z_][A-Za-z0-9_.\-]*", v):
        return v + "v" + str(n)
    if v == "":
        return "v" + str(n)
    return v + " v" + str(n)


def new_value(target: Dict[str, Any], old: Any, vclass: str, n: int) -> Tuple[bool, Any]:
    """Returns (applicable, value)."""
    t = target["type"]
    name = target["field"]
    if target["kind"] == "list":
        return True, "append-copy"
    if target["kind"] == "populate":
        if vclass == "meta" and populate_meta_allowed(target["cls"], target["field"]):
            return True, "populate-meta"
        return (True, "populate") if vclass == "plain" else (False, None)
    if target["kind"] == "retarget":
        return (True, ["ref", target.get("donor")]) if vclass == "plain" and target.get("donor") else (False, None)
    if vclass == "empty":
        # the empty string: unusual but legal for free-text content
        if target["kind"] != "leaf" or not (isinstance(old, str) or (old is None and "Optional[str]" in t)):
            return False, None
        if old == "" or (target["cls"], target["field"]) in NOT_EMPTY:
            return False, None
        return True, ""
    if vclass == "ws":
        if target["kind"] != "leaf" or not (isinstance(old, str) or (old is None and "Optional[str]" in t)):
            return False, None
        if name not in FREE_TEXT_FIELDS or not ws_allowed(target["cls"], name):
            return False, None
        return True, WS_TEXT
    if vclass == "meta":
        if not (isinstance(old, str) or (old is None and "Optional[str]" in t)):
            return False, None
        if name not in FREE_TEXT_FIELDS:
            return False, None
        if target["cls"] == "Description" and name == "text":
            return True, META_XHTML
        return True, META_TEXT
    if isinstance(old, bool):
        return True, not old
    if isinstance(old, enum.Enum):
        members = list(type(old))
        if len(members) < 2:
            return False, None
        return True, ("enum", members[(members.index(old) + 1 + n) % len(members)].name)
    if isinstance(old, int):
        # (no huge values for positions and sizes: a constant at byte 1234567 makes the library build a prefix tree
        # of that depth per database, which only measures the memory of the machine)
        big = 257 if name.endswith(("position", "length", "size", "_pos")) else 1234567
        return True, [old + 1, old + 2, big + old, old + 3][n % 4]
    if isinstance(old, float):
        # also values that need many significant digits or are very small / large
        return True, [old + 0.5, old + 0.123456789012, 1234567.0 + old, 0.0009765625 + old][n % 4]
    if isinstance(old, str):
        if target["cls"] == "Description" and name == "text":
            return True, f"<p>verif {n}</p>"
        return True, lexical_variant(old, n)
    if isinstance(old, bytes):
        return True, old + b"\x01"
    if old is None:
        if "Optional[str]" in t:
            return True, "vtoken" + str(n)
        if "Optional[bool]" in t:
            return True, bool(n % 2 == 0)
        if "Optional[int]" in t:
            return True, 3 + n
        if "Optional[float]" in t:
            return True, 2.5
    return False, None


def apply_perturbation(db, pert: Dict[str, Any]) -> Tuple[Any, Any]:
    """Returns (old value, new value actually set)."""
    import copy
    owner, last = get_path(db, pert["path"])
    old = step_into(owner, last)
    val = pert["value"]
    if val in ("populate", "populate-meta"):
        fld = next(f for f in dataclasses.fields(owner) if f.name == last)
        kind, dc = _dc_in_type(fld.type)
        try:
            obj = synthesize(dc, nearest_frags(db, pert["path"][:-1]), identifiable_index(db), [pert.get("n", 0)],
                             meta=(val == "populate-meta"))
        except Unsynthesizable:
            raise
        except Exception as e:  # noqa: BLE001 - the class refuses the synthesized field values (__post_init__)
            raise Unsynthesizable(f"{dc.__name__}: {type(e).__name__}")
        if kind == "opt":
            setattr(owner, last, obj)
        else:
            old.append(obj)
        return None, type(obj).__name__
    if isinstance(val, (list, tuple)) and len(val) == 2 and val[0] == "ref":
        d_owner, d_last = get_path(db, val[1])
        donor = step_into(d_owner, d_last)
        new = type(donor)(ref_id=donor.ref_id, ref_docs=list(donor.ref_docs))
        setattr(owner, last, new)
        return old.ref_id, new.ref_id
    if val == "append-copy":
        item = copy.deepcopy(old[-1])
        if hasattr(item, "short_name") and isinstance(item.short_name, str):
            item.short_name = item.short_name + "_copy"
        old.append(item)
        return len(old) - 1, len(old)
    if isinstance(val, (list, tuple)) and len(val) == 2 and val[0] == "enum":
        val = type(old)[val[1]]
    if isinstance(last, int):
        owner[last] = val
    else:
        setattr(owner, last, val)
    return old, val


# ------------------------------------------------------------------ structural comparison
def compare(a: Any, b: Any, path: List[Any], seen: set) -> Optional[Tuple[List[Any], str, Any, Any]]:
    """First structural difference between two object graphs: (path, what, a, b)."""
    if is_leaf(a) or is_leaf(b):
        if type(a) is not type(b) and not (isinstance(a, (int, float)) and isinstance(b, (int, float))
                                           and not isinstance(a, bool) and not isinstance(b, bool)):
            return path, "type", short(a), short(b)
        if isinstance(a, float) or isinstance(b, float):
            if a != b and not (a != a and b != b):
                return path, "value", a, b
            return None
        if a != b:
            return path, "value", short(a), short(b)
        return None
    if isinstance(a, (list, tuple)):
        if not isinstance(b, (list, tuple)):
            return path, "type", type(a).__name__, type(b).__name__
        if len(a) != len(b):
            return path, "length", len(a), len(b)
        for i, (x, y) in enumerate(zip(a, b)):
            d = compare(x, y, path + [i], seen)
            if d:
                return d
        return None
    if isinstance(a, dict):
        if not isinstance(b, dict) or sorted(map(str, a)) != sorted(map(str, b)):
            return path, "keys", sorted(map(str, a))[:5], sorted(map(str, b))[:5] if isinstance(b, dict) else None
        for k in a:
            d = compare(a[k], b[k], path + [("key", str(k))], seen)
            if d:
                return d
        return None
    if dataclasses.is_dataclass(a) and not isinstance(a, type):
        if type(a).__name__ != type(b).__name__:
            return path, "class", type(a).__name__, type(b).__name__
        if (id(a), id(b)) in seen:
            return None
        seen.add((id(a), id(b)))
        for f in public_fields(a):
            if STATE.get("skip_derived_in_compare") and f.name != "short_name" and is_derived(type(a).__name__, f.name):
                continue  # a synthesized element carries arbitrary values in fields the parser derives from context
            d = compare(getattr(a, f.name), getattr(b, f.name, None), path + [f.name], seen)
            if d:
                return d
        return None
    if type(a).__name__ != type(b).__name__:
        return path, "class", type(a).__name__, type(b).__name__
    return None


def short(v: Any) -> Any:
    if dataclasses.is_dataclass(v) and not isinstance(v, type):
        return f"<{type(v).__name__}>"
    if isinstance(v, enum.Enum):
        return f"{type(v).__name__}.{v.name}"
    if isinstance(v, bytes):
        return v.hex()[:40]
    if isinstance(v, str):
        return v[:60]
    return v


def match_path(a, b, path: List[Any]) -> List[Any]:
    """Translate a path into database a to database b (top-level documents are matched by
    short name, everything below by position)."""
    rname, idx = path[0], path[1]
    ra = getattr(a, rname)
    rb = getattr(b, rname)
    j = next(i for i, z in enumerate(rb) if z.short_name == ra[idx].short_name)
    return [rname, j] + list(path[2:])


def compare_dbs(a, b) -> Optional[Tuple[List[Any], str, Any, Any]]:
    for (rname, ra), (_, rb) in zip(roots(a), roots(b)):
        # top-level documents are matched by short name (their order follows file order)
        na = sorted(x.short_name for x in ra)
        nb = sorted(x.short_name for x in rb)
        if na != nb:
            return [rname], "documents", na, nb
        seen: set = set()
        for i, x in enumerate(ra):
            y = next(z for z in rb if z.short_name == x.short_name)
            d = compare(x, y, [rname, i], seen)
            if d:
                return d
    mv_a, mv_b = str(a.model_version), str(b.model_version)
    if mv_a != mv_b:
        return ["model_version"], "value", mv_a, mv_b
    return None


# ------------------------------------------------------------------ generation
ENTRIES = ["load_pdx_file", "load_file", "add_pdx_path", "add_pdx_io", "add_pdx_zipfile", "load_directory",
           "load_files"]
JUMPS = [("forward_1s", 1.0), ("forward_1day", 86400.0), ("backward_1h", -3600.0), ("across_year", 40000000.0),
         ("backward_10y", -315360000.0), ("none", 0.0), ("across_midnight", 43200.0)]


def gen(rs: int, index: int, tier: str) -> Dict[str, Any]:
    S = Streams(rs)
    r = S.rng("cfg")
    pairs = STATE["pairs"]
    pert = None
    if index < len(pairs):
        # systematic: every (class, field) pair once with a plain and, for free-text fields,
        # once with a meta value
        base, key, vclass = pairs[index]
        cands = [t for t in STATE["targets"][base] if (t["cls"], t["field"]) == key]
        tgt = cands[h64("pick", rs) % len(cands)]
        # further instances of the same pair in other contexts, tried in turn if the perturbed database does
        # not survive refresh() (e.g. an empty default is only valid for a string-typed parameter)
        seen_ctx = {tgt.get("ctx", "")}
        alts = []
        for t in cands:
            if t.get("ctx", "") not in seen_ctx:
                seen_ctx.add(t.get("ctx", ""))
                alts.append(t["path"])
        alts = alts[:8]
    else:
        base = weighted(r, ["somersault", "somersault_modified", "somersault_renamed", "zoo0", "zoo1", "zoo2", "zoo3", "zoo9", "zoo8", "zoo7", "zoo6"],
                        [5, 2, 2, 2, 2, 2, 2, 3, 2, 2, 1])
        vclass = weighted(r, ["plain", "meta", "empty", "none", "ws"], [6, 3, 1, 1, 1])
        tgts = STATE["targets"][base]
        tgt = r.choice(tgts) if vclass != "none" and tgts else None
        alts = []
        if tgt is not None:
            same = [t for t in tgts if (t["cls"], t["field"]) == (tgt["cls"], tgt["field"]) and t is not tgt]
            r.shuffle(same)
            alts = [t["path"] for t in same[:4]]
    if tgt is not None and vclass != "none":
        db = None
        pert = {"path": tgt["path"], "cls": tgt["cls"], "field": tgt["field"], "type": tgt["type"],
                "kind": tgt["kind"], "vclass": vclass, "n": r.randint(0, 3), "alts": alts}
        if tgt["kind"] == "retarget":
            # the donor: an element of the same class in the same context whose reference points elsewhere
            rd = S.rng("donor")
            donors = [t for t in STATE["targets"][base] if t["kind"] == "retarget" and
                      (t["cls"], t["field"]) == (tgt["cls"], tgt["field"]) and t["ref"] != tgt["ref"]]
            # same document (container / subset) so that the reference means the same thing at its new place
            # (the same layer; for PARENT-REFs, which are per layer, the same container)
            depth = 2 if tgt["cls"] == "ParentRef" else 4
            donors = [t for t in donors if t["path"][:depth] == tgt["path"][:depth]]
            pool = [t for t in donors if t.get("ctx") == tgt.get("ctx")] or donors
            pert["alts"] = []
            if pool:
                pert["donor"] = rd.choice(pool)["path"]
            else:
                pert = None
    # the client edits the loaded database and writes it without calling refresh() first (the shipped
    # example mksomersaultmodifiedpdx.py: "For just writing to disk this is not necessary")
    norefresh = pert is not None and S.rng("norefresh").random() < 0.3
    if pert is not None and pert["kind"] == "retarget":
        # written without refresh() or (for the pairs validated that way) after refresh()
        modes = [m for m in (True, False) if retarget_allowed(pert["cls"], pert["field"] + ("" if m else "@refresh"))]
        norefresh = S.rng("retarget-mode").choice(modes) if modes else True
    jump = r.choice(JUMPS)
    e1, e2 = r.choice(ENTRIES), r.choice(ENTRIES)
    # history inside the run: in some runs another database is written first by the same process
    # (the writer keeps module-level state; what it wrote before must not matter)
    rp = S.rng("prelude")
    prelude = None
    if rp.random() < 0.3:
        prelude = rp.choice([b for b in ["somersault", "somersault_modified", "somersault_renamed", "zoo0", "zoo2"] if b != base])
    renv = S.rng("env")
    env = {"tz": [renv.choice(["UTC", "Europe/Berlin", "America/Los_Angeles", "Asia/Kolkata"]),
                  renv.choice(["UTC", "Europe/Berlin", "Pacific/Kiritimati", "Asia/Kolkata"])],
           "relative_paths": renv.random() < 0.3}
    # the client saves the database object, goes on and saves it again: the object has been written before
    prewrite = S.rng("prewrite").random() < 0.25
    # refresh() is called again on an already consistent database (before the first write / after the reload)
    rerefresh = [S.rng("rerefresh").random() < 0.15, S.rng("rerefresh2").random() < 0.15]
    # the loaded database is USED (encoding / decoding through every layer) before it is saved
    use_first = (not norefresh) and S.rng("usefirst").random() < 0.25
    return {"base": base, "prelude": prelude, "pert": pert, "env": env, "norefresh": norefresh, "prewrite": prewrite, "rerefresh": rerefresh, "use_first": use_first,
            "entries": [e1, e2], "orders": [r.randint(0, 10**6), r.randint(0, 10**6)],
            "index_pos": [r.choice(["first", "last", "middle", "keep"]), r.choice(["first", "last", "middle", "keep"])],
            "clock": [1_700_000_000.0 + r.randint(0, 10**7), jump[0], jump[1]]}


# ------------------------------------------------------------------ execution
def repack(src: str, dst: str, order_seed: int, index_pos: str) -> List[str]:
    import random
    with zipfile.ZipFile(src) as zin:
        names = zin.namelist()
        if index_pos != "keep":
            rest = [n for n in names if n != "index.xml"]
            random.Random(order_seed).shuffle(rest)
            if "index.xml" in names:
                pos = {"first": 0, "last": len(rest), "middle": len(rest) // 2}[index_pos]
                rest.insert(pos, "index.xml")
            names = rest
        with zipfile.ZipFile(dst, "w", zipfile.ZIP_DEFLATED) as zout:
            for n in names:
                zout.writestr(n, zin.read(n))
    return names


def load_via(entry: str, pdx: str, workdir: str, order_seed: int):
    import random

    from odxtools.database import Database
    odxtools = STATE["odxtools"]
    if entry == "load_pdx_file":
        return odxtools.load_pdx_file(pdx)
    if entry == "load_file":
        return odxtools.load_file(pdx)
    if entry == "add_pdx_path":
        db = Database()
        db.add_pdx_file(pdx)
        db.refresh()
        return db
    if entry == "add_pdx_io":
        db = Database()
        with open(pdx, "rb") as f:
            db.add_pdx_file(io.BytesIO(f.read()))
        db.refresh()
        return db
    if entry == "add_pdx_zipfile":
        db = Database()
        db.add_pdx_file(zipfile.ZipFile(pdx))
        db.refresh()
        return db
    d = os.path.join(workdir, f"x{order_seed}")
    os.makedirs(d, exist_ok=True)
    with zipfile.ZipFile(pdx) as z:
        z.extractall(d)
    if entry == "load_directory":
        STATE["listdir_perm"] = order_seed
        try:
            return odxtools.load_directory(d)
        finally:
            STATE["listdir_perm"] = None
    if entry == "load_files":
        names = sorted(os.listdir(d))
        random.Random(order_seed).shuffle(names)
        return odxtools.load_files(*[os.path.join(d, n) for n in names])
    raise ValueError(entry)


def aux_snapshot(db) -> Dict[str, str]:
    import hashlib
    out = {}
    for k, f in db.auxiliary_files.items():
        pos = f.tell() if hasattr(f, "tell") else None
        try:
            data = f.read()
        finally:
            if pos is not None:
                f.seek(pos)
        out[os.path.basename(str(k))] = hashlib.sha256(data).hexdigest()[:16]
    return out


def archive_aux(pdx) -> Dict[str, str]:
    import hashlib
    with zipfile.ZipFile(io.BytesIO(pdx) if isinstance(pdx, bytes) else pdx) as z:
        return {os.path.basename(n): hashlib.sha256(z.read(n)).hexdigest()[:16] for n in z.namelist()
                if not os.path.splitext(n)[1].lower().startswith(".odx") and os.path.basename(n).lower() != "index.xml"}


def base_archive(name: str):
    if name in STATE["bases"]:
        return STATE["bases"][name]
    return STATE.get("zoo_pdx", {}).get(name)


def base_aux_truth(name: str) -> Optional[Dict[str, str]]:
    """The auxiliary files a base database has BY CONSTRUCTION: those of the shipped archive, none for the
    databases built through the API (their archives are written by the tree under test and are not a truth)."""
    if name.startswith("zoo"):
        return {}
    arch = base_archive(name)
    return archive_aux(arch) if arch is not None else None


def check_aux(db, pdx, stage: str, entry: str, want: Optional[Dict[str, str]] = None) -> Optional[Dict[str, Any]]:
    got = aux_snapshot(db)
    if want is None:
        want = archive_aux(pdx)
    if got != want:
        extra = sorted(set(got) - set(want))
        missing = sorted(set(want) - set(got))
        changed = sorted(k for k in set(got) & set(want) if got[k] != want[k])
        what = "extra" if extra else ("missing" if missing else "content")
        return {"oracle": "C11.O6-auxiliary-files", "sig": {"what": what},
                "detail": {"stage": stage, "entry": entry, "extra": extra[:5], "missing": missing[:5], "changed": changed[:5],
                           "n_loaded": len(got), "n_in_archive": len(want)}}
    return None


def odx_members(pdx: str) -> Dict[str, bytes]:
    with zipfile.ZipFile(pdx) as z:
        return {n: z.read(n) for n in z.namelist() if ".odx" in n.lower() and not n.endswith(".orig")}


def check_wellformed(pdx: str) -> Optional[Tuple[str, str]]:
    from xml.etree import ElementTree
    with zipfile.ZipFile(pdx) as z:
        for n in z.namelist():
            if (".odx" in n.lower() and not n.endswith(".orig")) or n == "index.xml":
                try:
                    ElementTree.fromstring(z.read(n))
                except ElementTree.ParseError as e:
                    return n, str(e)[:120]
    return None


def behaviour(db) -> List[Any]:
    """Encode/decode behaviour sample of a database (compared between db0, db1, db2)."""
    out = []
    for dl in sorted(db.diag_layers, key=lambda x: x.short_name):
        for svc in list(dl.services)[:40]:
            try:
                pdu = bytes(svc.encode_request())
                o: Any = pdu.hex()
            except Exception as e:  # noqa: BLE001
                pdu = None
                o = "exc:" + type(e).__name__
            dec: Any = None
            if pdu is not None:
                try:
                    msgs = dl.decode(pdu)
                    dec = [[getattr(m.coding_object, "short_name", None), canon(m.param_dict)] for m in msgs]
                except Exception as e:  # noqa: BLE001
                    dec = "exc:" + type(e).__name__
            out.append([dl.short_name, svc.short_name, o, dec])
        for pdu_hex in ("1003", "3e00", "7f1011", "bad5002202", "fa03", "00"):
            try:
                msgs = dl.decode(bytes.fromhex(pdu_hex))
                dec = [[getattr(m.coding_object, "short_name", None), canon(m.param_dict)] for m in msgs]
            except Exception as e:  # noqa: BLE001
                dec = "exc:" + type(e).__name__
            out.append([dl.short_name, "decode", pdu_hex, dec])
    return out


def execute(trace: Dict[str, Any]) -> Dict[str, Any]:
    log = EventLog()
    odxtools = STATE["odxtools"]
    clock: SimClock = STATE["clock"]
    violations: List[Dict[str, Any]] = []
    counters: Dict[str, int] = {}
    faults: Dict[str, int] = {}
    probes: Dict[str, int] = {}
    states = set()
    sets: Dict[str, set] = {"class_field_exercised": set(), "class_field_accepted": set()}
    pert = trace.get("pert")
    cls = pert["cls"] if pert else "-"
    field = pert["field"] if pert else "-"
    vclass = pert["vclass"] if pert else "none"
    outcome = "ok"
    collateral = False
    sim_time = 0.0
    log.ev("sim", "config", {"base": trace["base"], "pert": [cls, field, vclass], "entries": trace["entries"],
                             "clock": trace["clock"][1]})
    workdir = tempfile.mkdtemp(prefix="vsim-c11-")
    STATE["skip_derived_in_compare"] = bool(pert and pert.get("kind") == "populate")
    env = trace.get("env") or {"tz": ["UTC", "UTC"], "relative_paths": False}
    old_tz, old_cwd = os.environ.get("TZ"), os.getcwd()

    def set_tz(name: str) -> None:
        import time as _t
        os.environ["TZ"] = name
        _t.tzset()

    set_tz(env["tz"][0])
    if env.get("relative_paths"):
        os.chdir(workdir)
        faults["relative_paths_and_other_cwd"] = 1
    try:
        with W.quiet():
            try:
                db0 = load_base(trace["base"])
            except Exception as e:  # noqa: BLE001
                # a zoo database (built through the public API) cannot be written or re-loaded
                sig = exc_sig(e)
                violations.append({"oracle": "C11.write", "sig": {"cls": "-", "field": "-", "vclass": "base", **sig},
                                   "detail": {"base": trace["base"], "msg": str(e)[:300]}})
                outcome = "base-failed"
                pert = None
                db0 = None
            if db0 is not None and trace.get("prelude"):
                try:
                    odxtools.write_pdx_file(os.path.join(workdir, "prelude.pdx"), load_base(trace["prelude"]))
                    faults["other_database_written_before"] = 1
                except Exception as e:  # noqa: BLE001 - judged by the runs that use it as base
                    log.ev("sim", "prelude-failed", exc_sig(e))
            if db0 is not None and base_aux_truth(trace["base"]) is not None:
                # the auxiliary files of db0 are those of its archive, whatever else this process loaded or wrote
                v6 = check_aux(db0, None, "base load", "add_pdx_file", want=base_aux_truth(trace["base"]))
                if v6:
                    violations.append(v6)
            old = new = None
            if pert and db0 is not None:
                sets["class_field_exercised"].add(h64(cls, field))
                owner, last = get_path(db0, pert["path"])
                cur = step_into(owner, last)
                ok, val = new_value(pert, cur, vclass, pert.get("n", 0)) if "value" not in pert else (True, pert["value"])
                if not ok:
                    outcome = "not-applicable"
                    pert = None
                else:
                    pert = {**pert, "value": val}
                    paths = [pert["path"]] + [a for a in pert.get("alts", [])]
                    for pi, pth in enumerate(paths):
                        if pi > 0:
                            try:
                                db0 = load_base(trace["base"])
                            except Exception as e:  # noqa: BLE001 - the base loaded a moment ago: it must load again
                                outcome = "base-failed"
                                violations.append({"oracle": "C11.write", "sig": {"cls": "-", "field": "-", "vclass": "base", **exc_sig(e)},
                                                   "detail": {"base": trace["base"], "msg": str(e)[:300], "stage": "repeated load of the base"}})
                                break
                            owner, last = get_path(db0, pth)
                            cur = step_into(owner, last)
                            ok, val = new_value({**pert, "path": pth}, cur, vclass, pert.get("n", 0))
                            if not ok:
                                continue
                            pert = {**pert, "path": pth, "value": val}
                            counters["retried_other_instance"] = counters.get("retried_other_instance", 0) + 1
                        try:
                            old, new = apply_perturbation(db0, pert)
                        except Unsynthesizable as e:
                            outcome = "discarded"
                            log.ev("sim", "unsynthesizable", str(e)[:80])
                            continue
                        try:
                            db0.refresh()
                            outcome = "ok"
                            break
                        except Exception as e:  # noqa: BLE001
                            outcome = "discarded"
                            log.ev("sim", "discarded", exc_sig(e))
            if outcome in ("ok",):
                if pert:
                    sets["class_field_accepted"].add(h64(cls, field))
                # write P1 at T1
                clock.now = float(trace["clock"][0])
                wd = "" if env.get("relative_paths") else workdir
                p1 = os.path.join(wd, "p1.pdx")
                dbw = db0
                if pert and trace.get("norefresh"):
                    # the written object: a second instance of the base with the same edit and NO refresh();
                    # db0 (edited and refreshed) stays the reference the reloaded database is compared with
                    try:
                        dbw = load_base(trace["base"])
                        apply_perturbation(dbw, pert)
                        faults["written_without_refresh"] = 1
                    except Exception as e:  # noqa: BLE001 - the base loaded a moment ago: it must load again
                        outcome = "base-failed"
                        violations.append({"oracle": "C11.write", "sig": {"cls": "-", "field": "-", "vclass": "base", **exc_sig(e)},
                                           "detail": {"base": trace["base"], "msg": str(e)[:300], "stage": "second load of the base"}})
                if outcome == "ok" and trace.get("use_first") and dbw is db0:
                    behaviour(db0)
                    faults["database_used_before_it_is_written"] = 1
                if outcome == "ok" and (trace.get("rerefresh") or [False])[0] and dbw is db0:
                    try:
                        db0.refresh()
                        faults["refresh_called_again"] = faults.get("refresh_called_again", 0) + 1
                    except Exception as e:  # noqa: BLE001 - refresh() worked a moment ago
                        outcome = "refresh-failed"
                        violations.append({"oracle": "C11.write", "sig": {"cls": cls, "field": field, "vclass": "re-refresh", **exc_sig(e)},
                                           "detail": {"msg": str(e)[:200], "pert": pert, "stage": "second refresh() of the source database"}})
                if outcome == "ok" and trace.get("prewrite"):
                    try:
                        odxtools.write_pdx_file(os.path.join(wd, "p0.pdx"), dbw)
                        faults["database_object_written_before"] = 1
                    except Exception as e:  # noqa: BLE001 - judged by the write below
                        log.ev("sim", "prewrite-failed", exc_sig(e))
                try:
                    if outcome == "ok":
                        odxtools.write_pdx_file(p1, dbw)
                except Exception as e:  # noqa: BLE001
                    outcome = "write-failed"
                    sig = exc_sig(e)
                    violations.append({"oracle": "C11.write", "sig": {"cls": cls, "field": field, "vclass": vclass, **sig},
                                       "detail": {"msg": str(e)[:200], "pert": pert}})
                if outcome == "ok":
                    bad = check_wellformed(p1)
                    if bad:
                        outcome = "not-well-formed"
                        violations.append({"oracle": "C11.O1-wellformed", "sig": {"cls": cls, "field": field, "vclass": vclass},
                                           "detail": {"member": bad[0], "error": bad[1], "pert": pert}})
                if outcome == "ok" and trace.get("use_first") and dbw is db0:
                    # read-only use must not change what is written: the same database, never used, writes the same documents
                    try:
                        dbx = load_base(trace["base"])
                        if pert:
                            apply_perturbation(dbx, pert)
                            dbx.refresh()
                        px = os.path.join(wd, "px.pdx")
                        odxtools.write_pdx_file(px, dbx)
                        mx, m1_ = odx_members(px), odx_members(p1)
                    except Exception as e:  # noqa: BLE001 - judged by the other runs of this configuration
                        mx = m1_ = None
                        log.ev("sim", "unused-twin-failed", exc_sig(e))
                    if mx is not None and mx != m1_:
                        n = next((n for n in sorted(set(mx) | set(m1_)) if mx.get(n) != m1_.get(n)), "?")
                        a, b_ = m1_.get(n, b""), mx.get(n, b"")
                        pos = next((i for i in range(min(len(a), len(b_))) if a[i] != b_[i]), min(len(a), len(b_)))
                        violations.append({"oracle": "C11.O8-use-does-not-change-what-is-written", "sig": {"suffix": n.rsplit(".", 1)[-1]},
                                           "detail": {"member": n, "offset": pos,
                                                      "written_after_use": a[max(0, pos - 60):pos + 60].decode("utf-8", "replace"),
                                                      "written_unused": b_[max(0, pos - 60):pos + 60].decode("utf-8", "replace"),
                                                      "pert": pert}})
                if outcome == "ok" and base_aux_truth(trace["base"]) is not None:
                    # the auxiliary files of the written archive are those of the archive the database came from
                    want, got = base_aux_truth(trace["base"]), archive_aux(p1)
                    if want != got:
                        missing = sorted(set(want) - set(got))
                        changed = sorted(k for k in set(got) & set(want) if got[k] != want[k])
                        violations.append({"oracle": "C11.O6-auxiliary-files",
                                           "sig": {"what": "written-missing" if missing else "written-content"},
                                           "detail": {"stage": "written archive vs archive of origin", "missing": missing[:5],
                                                      "changed": changed[:5], "extra": sorted(set(got) - set(want))[:5],
                                                      "written_before": bool(trace.get("prewrite"))}})
                if outcome == "ok":
                    p1r = os.path.join(wd, "p1r.pdx")
                    names = repack(p1, p1r, trace["orders"][0], trace["index_pos"][0])
                    faults["member_order_" + trace["index_pos"][0]] = 1
                    faults["entry_" + trace["entries"][0]] = faults.get("entry_" + trace["entries"][0], 0) + 1
                    try:
                        db1 = load_via(trace["entries"][0], p1r, wd or ".", trace["orders"][0])
                    except Exception as e:  # noqa: BLE001
                        sig = exc_sig(e)
                        if pert and (vclass in ("plain", "empty") or pert["kind"] == "list"):
                            outcome = "rejected"
                            log.ev("sim", "rejected", sig)
                        else:
                            outcome = "reload-failed"
                            violations.append({"oracle": "C11.reload", "sig": {"cls": cls, "field": field, "vclass": vclass, **sig},
                                               "detail": {"msg": str(e)[:200], "pert": pert, "entry": trace["entries"][0]}})
                if outcome == "ok":
                    v6 = check_aux(db1, p1r, "first reload", trace["entries"][0])
                    if v6:
                        violations.append(v6)
                    v7 = check_no_sharing(dbw, db1, "written database vs first reload")
                    if v7:
                        violations.append(v7)
                if outcome == "ok":
                    d = compare_dbs(db0, db1)
                    if d:
                        path, what, va, vb = d
                        pp = [tuple(x) if isinstance(x, list) else x for x in pert["path"]] if pert else []
                        qq = [tuple(x) if isinstance(x, list) else x for x in path]
                        on_target = pert is not None and (qq[:len(pp)] == pp or pp[:len(qq)] == qq)
                        if pert is not None and on_target:
                            outcome = "dropped" if (vb is None or vb == short(old)) else "altered"
                        elif pert is not None:
                            # a difference away from the perturbed field: the perturbed db0 was not
                            # self-consistent (a field derived from the perturbed one is stale in
                            # db0).  Counted, not gated; what is gated for such runs is that the
                            # perturbed field itself arrives and that db1 = db2 (below).
                            outcome = "ok"
                            collateral = True
                            probes["collateral_difference_not_gated"] = 1
                            log.ev("sim", "collateral", {"path": path_str(path)})
                            owner1, last1 = get_path(db1, match_path(db0, db1, pert["path"]))
                            got = step_into(owner1, last1)
                            want = step_into(*get_path(db0, pert["path"]))
                            dd = compare(want, got, list(pert["path"]), set())
                            if dd:
                                outcome = "dropped" if (dd[3] is None or dd[3] == short(old)) else "altered"
                                path, what, va, vb = dd
                        else:
                            outcome = "differs"
                        if outcome != "ok":
                            violations.append({
                                "oracle": "C11.O2-structural-equality",
                                "sig": {"cls": cls, "field": field, "vclass": vclass, "what": outcome},
                                "detail": {"path": path_str(path), "difference": what, "written": va, "loaded": vb,
                                           "pert": pert, "entry": trace["entries"][0]}})
                if outcome == "ok":
                    # write P2 after a clock jump, from the reloaded database
                    clock.now = float(trace["clock"][0]) + float(trace["clock"][2])
                    set_tz(env["tz"][1])
                    if env["tz"][0] != env["tz"][1]:
                        faults["time_zone_change_between_writes"] = 1
                    sim_time = abs(float(trace["clock"][2]))
                    faults["clock_jump_" + trace["clock"][1]] = 1
                    p2 = os.path.join(wd, "p2.pdx")
                    if (trace.get("rerefresh") or [False, False])[1]:
                        db1.refresh()
                        faults["refresh_called_again"] = faults.get("refresh_called_again", 0) + 1
                    odxtools.write_pdx_file(p2, db1)
                    m1, m2 = odx_members(p1), odx_members(p2)
                    if collateral:
                        pass  # db0 was not a fixpoint of load(write()); byte identity is judged on P2/P3 instead
                    elif sorted(m1) != sorted(m2):
                        violations.append({"oracle": "C11.O3-identical-odx-documents", "sig": {"what": "member-set"},
                                           "detail": {"first": sorted(m1), "second": sorted(m2)}})
                    else:
                        for n in sorted(m1):
                            if m1[n] != m2[n]:
                                a, b = m1[n], m2[n]
                                pos = next((i for i in range(min(len(a), len(b))) if a[i] != b[i]), min(len(a), len(b)))
                                violations.append({
                                    "oracle": "C11.O3-identical-odx-documents",
                                    "sig": {"what": "bytes-differ", "cls": cls, "field": field, "suffix": n.rsplit(".", 1)[-1]},
                                    "detail": {"member": n, "offset": pos, "first": a[max(0, pos - 40):pos + 40].decode("utf-8", "replace"),
                                               "second": b[max(0, pos - 40):pos + 40].decode("utf-8", "replace"), "pert": pert,
                                               "clock_jump": trace["clock"][1]}})
                                break
                    p2r = os.path.join(wd, "p2r.pdx")
                    repack(p2, p2r, trace["orders"][1], trace["index_pos"][1])
                    faults["entry_" + trace["entries"][1]] = faults.get("entry_" + trace["entries"][1], 0) + 1
                    try:
                        db2 = load_via(trace["entries"][1], p2r, wd or ".", trace["orders"][1])
                    except Exception as e:  # noqa: BLE001
                        db2 = None
                        sig = exc_sig(e)
                        violations.append({"oracle": "C11.reload", "sig": {"cls": cls, "field": field, "vclass": vclass, **sig},
                                           "detail": {"msg": str(e)[:200], "pert": pert, "entry": trace["entries"][1], "stage": "second"}})
                    if db2 is not None:
                        v6 = check_aux(db2, p2r, "second reload", trace["entries"][1])
                        if v6:
                            violations.append(v6)
                        v7 = check_no_sharing(db1, db2, "first vs second reload")
                        if v7:
                            violations.append(v7)
                        d = compare_dbs(db1, db2)
                        if d:
                            path, what, va, vb = d
                            violations.append({
                                "oracle": "C11.O5-entry-point-and-order-independence",
                                "sig": {"entries": "/".join(trace["entries"]), "what": what},
                                "detail": {"path": path_str(path), "first": va, "second": vb,
                                           "index_pos": trace["index_pos"]}})
                        b0, b1, b2 = behaviour(db0), behaviour(db1), behaviour(db2)
                        if len(b0) == len(b1) == len(b2):
                            # a sample that ran out of memory in one of the three databases says nothing about the
                            # round trip (the worker's address space is limited): it is dropped from all three
                            keep = [i for i in range(len(b0)) if not any("MemoryError" in str(b[i][-2:]) for b in (b0, b1, b2))]
                            if len(keep) != len(b0):
                                probes["behaviour_sample_out_of_memory_not_judged"] = len(b0) - len(keep)
                                b0, b1, b2 = [b0[i] for i in keep], [b1[i] for i in keep], [b2[i] for i in keep]
                        if not (b0 == b1 == b2):
                            k = next(i for i in range(min(len(b0), len(b1), len(b2)))
                                     if not (b0[i] == b1[i] == b2[i])) if len(b0) == len(b1) == len(b2) else -1
                            violations.append({
                                "oracle": "C11.O4-behaviour", "sig": {"cls": cls, "field": field},
                                "detail": {"first_difference": [b0[k], b1[k], b2[k]] if k >= 0 else "lengths differ",
                                           "pert": pert}})
                        counters["behaviour_samples"] = len(b0)
                        states.add(h64(trace["entries"][0], trace["entries"][1], trace["index_pos"][0], trace["clock"][1]))
    finally:
        os.chdir(old_cwd)
        if old_tz is None:
            os.environ.pop("TZ", None)
        else:
            os.environ["TZ"] = old_tz
        import time as _t
        _t.tzset()
        shutil.rmtree(workdir, ignore_errors=True)
        STATE["listdir_perm"] = None
    counters["outcome_" + outcome] = 1
    counters["vclass_" + vclass] = 1
    states.add(h64(cls, field, vclass, outcome))
    log.ev("sim", "outcome", {"outcome": outcome, "violations": [(v["oracle"], v["sig"]) for v in violations]})
    seen = set()
    uniq = []
    for v in violations:
        key = (v["oracle"], tuple(sorted((k, str(x)) for k, x in v["sig"].items())))
        if key not in seen:
            seen.add(key)
            uniq.append(v)
    nontrivial = (pert is not None and outcome not in ("discarded", "not-applicable")) or (
        outcome == "ok" and trace["index_pos"][0] != "keep" and trace["entries"][0] != "load_pdx_file")
    return {
        "digest": log.digest(),
        "events": log.events,
        "counters": counters,
        "faults": faults,
        "probes": probes,
        "states": states,
        "sets": sets,
        "sched_sig": h64(tuple(trace["entries"]), tuple(trace["index_pos"]), trace["clock"][1]),
        "sim_time": sim_time,
        "violations": uniq,
        "nontrivial": nontrivial,
        "sample": {"base": trace["base"], "pert": {k: pert[k] for k in ("path", "cls", "field", "vclass", "value")} if pert else None,
                   "entries": trace["entries"], "index_pos": trace["index_pos"], "clock": trace["clock"], "outcome": outcome},
    }


def element_ids(db) -> Dict[int, str]:
    """id() -> class name of every named element reachable from the database roots."""
    out: Dict[int, str] = {}

    def rec(v: Any, depth: int) -> None:
        if is_leaf(v) or depth > 60:
            return
        if isinstance(v, (list, tuple)):
            for x in v:
                rec(x, depth + 1)
            return
        if isinstance(v, dict):
            for x in v.values():
                rec(x, depth + 1)
            return
        if dataclasses.is_dataclass(v) and not isinstance(v, type):
            if id(v) in out or id(v) in seen:
                return
            seen.add(id(v))
            if isinstance(getattr(v, "short_name", None), str):
                out[id(v)] = type(v).__name__
            for f in public_fields(v):
                rec(getattr(v, f.name), depth + 1)

    seen: set = set()
    for _, r in roots(db):
        rec(r, 0)
    return out


def check_no_sharing(a, b, stage: str) -> Optional[Dict[str, Any]]:
    """Two Database objects obtained by separate load calls are separate object graphs: editing one must
    not edit the other, and what is loaded reflects the file, not what the process loaded before."""
    ia, ib = element_ids(a), element_ids(b)
    common = set(ia) & set(ib)
    if common:
        classes = sorted({ia[i] for i in common})
        return {"oracle": "C11.O7-loaded-databases-share-no-elements", "sig": {"cls": classes[0]},
                "detail": {"stage": stage, "shared_elements": len(common), "classes": classes[:8]}}
    return None


def path_str(path: List[Any]) -> str:
    return "/".join(str(p) if not isinstance(p, (list, tuple)) else f"[{p[1]}]" for p in path)


def replay_priority(trace: Dict[str, Any]) -> int:
    """Traces that carry their own write history (prelude) replay in a fresh interpreter even when the
    defect depends on what the process wrote before."""
    return 0 if trace.get("prelude") else 1


# ------------------------------------------------------------------ minimisation
def trace_size(trace: Dict[str, Any]) -> int:
    n = 1 if trace.get("pert") else 0
    n += 1 if trace.get("prelude") else 0
    n += sum(1 for e in trace["entries"] if e != "load_pdx_file")
    n += sum(1 for p in trace["index_pos"] if p != "keep")
    n += 0 if trace["clock"][1] == "none" else 1
    return n


def shrink(trace: Dict[str, Any], still_fails) -> Dict[str, Any]:
    cur = trace
    for cand in (
        {**cur, "prelude": None},
        {**cur, "clock": [cur["clock"][0], "none", 0.0]},
        {**cur, "index_pos": ["keep", "keep"]},
        {**cur, "entries": ["load_pdx_file", cur["entries"][1]]},
        {**cur, "entries": [cur["entries"][0], "load_pdx_file"]},
        {**cur, "pert": None},
    ):
        merged = {**cur, **{k: cand[k] for k in cand if cand[k] != trace.get(k)}}
        if merged != cur and still_fails(merged):
            cur = merged
    return cur
