"""C16 - named item lists keep their list and name views consistent.

Seeded history search against an executable reference model (a plain Python list of
item identities per live list), pickle as "restart from durable state", failing /
cut-short operations as the faults.  No scheduler is involved (see DESIGN.md §7).
"""
import copy
import keyword
import pickle
import re
from dataclasses import dataclass, field
from typing import Any, Dict, List, Optional, Tuple

from ..core.evlog import EventLog, exc_sig
from ..core.seeds import Streams, h64, weighted
from ..core.shrink import ShrinkBudget, ddmin_list, shrink_each

META: Dict[str, Any] = {
    "id": "C16",
    "level": "exploration",
    "pools": [{"backend": "c"}, {"backend": "c", "optimize": 1}],
    "tiers": {
        "quick": {"runs": 92000, "chunk": 1000, "wall": 200, "chunk_wall": 240},
        "thorough": {"runs": 4000000, "chunk": 4000, "wall": 900, "chunk_wall": 600},
    },
    "selftest_runs": 6,
    "rule": ("one run = one operation history over a pool of live NamedItemLists (the original and "
             "every copy made so far): append/insert/extend/remove/pop/clear/copy()/copy.copy/"
             "deepcopy/pickle round trip/construction from an iterable, plus legitimately failing "
             "operations (pop on empty or out of range, remove of an absent item, item without "
             "short_name, extend from an iterator that raises after k items) and a read-only "
             "`inspect` operation (dir, repr, ==, in, index, slicing, reversed, hasattr). The first runs "
             "enumerate ALL histories of depth 4 (quick) / 5 (thorough) over a 16-operation "
             "alphabet; the rest are random histories of length 5-60. Non-trivial: the history "
             "contains a name collision and a removal or copy. Distinct = distinct event-log digest."),
    "state_measure": "canonical (names tuple, short-name tuple) of every live list after every step",
    "sim_time_note": "no time in this property: logical steps only",
    "components": {
        "real": ["odxtools.nameditemlist.NamedItemList / ItemAttributeList", "copy, pickle (stdlib)"],
        "stub": ["items (a small dataclass with short_name)", "failing iterators"],
    },
    "assumptions": ["the same object is never inserted twice (the statement is undefined for that)",
                    "strict mode (an item without short_name is rejected)"],
}

# (short name, tag): equal short name + equal tag => equal but distinct objects
ALPHABET: List[Tuple[str, int]] = [
    ("a", 0), ("a", 0), ("a", 1), ("b", 0), ("a_2", 0), ("a_", 0), ("class", 0), ("None", 0),
    ("1st", 0), ("_1st", 0), ("append", 0), ("keys", 0), ("get", 0), ("copy", 0), ("_item_dict", 0),
    ("a_3", 0), ("pop", 0), ("a_2", 1), ("import", 0), ("2", 0), ("items", 0), ("b", 1),
    ("__reserved__", 0), ("__reserved__", 1), ("__len__", 0), ("__x", 0), ("_", 0), ("__dict__", 0),
    # attributes of the list class whose value is None / falsy
    ("__hash__", 0), ("__hash__", 1), ("__doc__", 0), ("__weakref__", 0), ("__module__", 0),
]

SYS_OPS: List[List[Any]] = [
    ["append", 0], ["append", 1], ["append", 3], ["append", 10], ["insert", 0, 0], ["insert", 0, 4],
    ["remove", 0], ["remove", -1], ["pop", -1], ["pop", 0], ["clear"], ["copy"], ["deepcopy"], ["pickle", 4],
    ["inspect"], ["extend", [0], "nil"],
]


@dataclass
class Item:
    short_name: str
    tag: int = 0
    # back reference to the list the item was put into (as library elements have: a table row knows its table,
    # which owns the list of its rows); not part of the item's value
    owner: Any = field(default=None, compare=False, repr=False)


class Nameless:
    """An object without short_name (a failing insertion)."""

    def __eq__(self, other: object) -> bool:
        return isinstance(other, Nameless)

    def __hash__(self) -> int:
        return 7


def pool_of(rs: int, index: int) -> int:
    # the enumerated depth-4 histories run in the default environment, the rest alternates
    # with the "python -O" environment
    return 0 if index < len(SYS_OPS) ** 4 else index % 2


NIL = None


REAL_LISTS: List[Any] = []


def worker_init() -> None:
    global NIL
    import os

    import odxtools
    from odxtools.nameditemlist import NamedItemList

    from ..can.world import quiet
    from ..core import worker
    NIL = NamedItemList
    # name lists of a real database: their items are library elements with back references (a table row refers to
    # its table, which owns the list of its rows), i.e. the list is reachable from its own items
    with quiet():
        db = odxtools.load_pdx_file(os.path.join(worker.repo_dir(), "examples", "somersault.pdx"))
    STATE_DB.append(db)
    for layer in db.diag_layers:
        ddds = layer.diag_layer_raw.diag_data_dictionary_spec
        cands = [layer.services, layer.diag_layer_raw.requests, layer.diag_layer_raw.positive_responses]
        if ddds is not None:
            cands += [ddds.data_object_props, ddds.structures, ddds.tables, ddds.end_of_pdu_fields, ddds.muxs]
            for t in ddds.tables:
                cands.append(t.table_rows)
        for rq in list(layer.diag_layer_raw.requests)[:3]:
            cands.append(rq.parameters)
        for c in cands:
            if isinstance(c, NamedItemList) and len(c) > 0 and len(REAL_LISTS) < 60:
                REAL_LISTS.append(c)
    # (lists of diagnostic layers are left out: on the pinned tree a layer cannot be deep-copied at all -
    # HierarchyElement.__deepcopy__ assigns to a read-only property - which is a defect of the item class, not
    # of the list and not of any listed property; see DESIGN.md section 20)


STATE_DB: List[Any] = []


# ------------------------------------------------------------------ generation
def gen(rs: int, index: int, tier: str) -> Dict[str, Any]:
    depth = 4 if tier == "quick" else 5
    n_sys = len(SYS_OPS) ** depth
    if index < n_sys:
        ops = []
        x = index
        for _ in range(depth):
            x, d = divmod(x, len(SYS_OPS))
            ops.append([0] + SYS_OPS[d])
        # copies switch the target list: subsequent ops act on the newest list half the time
        tgt = 0
        out = []
        for j, op in enumerate(ops):
            op = [tgt] + op[1:]
            out.append(op)
            if op[1] in ("copy", "deepcopy", "pickle") and (index >> j) & 1 == 0:
                tgt += 1
        return {"ops": out, "systematic": True}
    S = Streams(rs)
    r = S.rng("ops")
    n = r.randint(5, 60)
    # swarm: per-run subset of the alphabet and op weights
    alpha = [i for i in range(len(ALPHABET)) if r.random() < 0.45] or [0, 1]
    if r.random() < 0.7:
        alpha = sorted(set(alpha + [0, 1]))
    w = {k: r.choice([0, 1, 1, 2, 4]) for k in
         ["append", "insert", "extend", "remove", "pop", "clear", "copy", "copycopy", "deepcopy", "pickle",
          "construct", "remove_absent", "pop_bad", "append_nameless", "extend_raise", "insert_nameless",
          "inspect", "insert_badindex", "item_copy", "pop_badindex"]}
    w["append"] = max(w["append"], 2)
    kinds = [k for k in w if w[k] > 0]
    ops: List[List[Any]] = []
    for _ in range(n):
        k = weighted(r, kinds, [w[x] for x in kinds])
        li = r.randint(0, 7)
        if k == "append":
            ops.append([li, "append", r.choice(alpha)])
        elif k == "insert":
            ops.append([li, "insert", r.choice([0, 0, 1, -1, 2, 5, -3, 100]), r.choice(alpha)])
        elif k == "extend":
            ops.append([li, "extend", [r.choice(alpha) for _ in range(r.randint(0, 4))],
                        r.choice(["iter", "iter", "list", "tuple", "nil", "nil"])])
        elif k == "remove":
            ops.append([li, "remove", r.choice([0, -1, 1, 2, r.randint(0, 9)])])
        elif k == "pop":
            ops.append([li, "pop", r.choice([-1, -1, 0, 1, -2, r.randint(0, 9)])])
        elif k == "clear":
            ops.append([li, "clear"])
        elif k in ("copy", "copycopy", "deepcopy"):
            ops.append([li, k])
        elif k == "pickle":
            ops.append([li, "pickle", r.choice([2, 3, 4, 5])])
        elif k == "construct":
            ops.append([li, "construct", [r.choice(alpha) for _ in range(r.randint(0, 5))],
                        r.choice(["list", "gen", "tuple", "nil"])])
        elif k == "remove_absent":
            ops.append([li, "remove_absent", r.choice(alpha)])
        elif k == "pop_bad":
            ops.append([li, "pop", r.choice([50, -50])])
        elif k == "append_nameless":
            ops.append([li, "append_nameless"])
        elif k == "insert_nameless":
            ops.append([li, "insert_nameless", r.choice([0, 1, -1])])
        elif k == "extend_raise":
            ops.append([li, "extend_raise", [r.choice(alpha) for _ in range(r.randint(0, 3))]])
        elif k == "inspect":
            ops.append([li, "inspect"])
        elif k == "insert_badindex":
            ops.append([li, "insert_badindex", r.choice(["huge", "-huge", "str", "none", "float"]), r.choice(alpha)])
        elif k == "item_copy":
            ops.append([li, "item_copy", r.choice(["deepcopy", "pickle"]), r.randint(0, 9)])
        elif k == "pop_badindex":
            ops.append([li, "pop_badindex", r.choice(["name", "name", "str", "none", "float"]), r.randint(0, 9)])
    # now and then: copy / deep-copy / pickle of the name lists of a real database and of single items of them
    rr = S.rng("real")
    if rr.random() < 0.03:
        for _ in range(rr.randint(1, 2)):
            ops.insert(rr.randint(0, len(ops)), [0, "real", rr.randint(0, 10**6),
                                                 rr.choice(["pickle_list", "deepcopy_list", "pickle_item", "deepcopy_item",
                                                            "copy_list", "pickle_list", "pickle_item"])])
    return {"ops": ops, "systematic": False, "backref": S.rng("backref").random() < 0.35}


# ------------------------------------------------------------------ oracle
def base_name(sn: str) -> str:
    if sn[:1].isdigit() or keyword.iskeyword(sn):
        return "_" + sn
    return sn


_SENTINEL = object()


class Violation(Exception):

    def __init__(self, inv: str, detail: Dict[str, Any]):
        super().__init__(inv)
        self.inv = inv
        self.detail = detail


def check_list(nil, model: List[Any], identity: bool, li: int) -> None:
    """All invariants of one list against its model, public API only."""
    cls = type(nil)
    actual = list(nil)
    if len(nil) != len(model) or len(actual) != len(model):
        raise Violation("length", {"list": li, "len": len(nil), "model": len(model)})
    for j, (x, m) in enumerate(zip(actual, model)):
        if x is not m:
            raise Violation("order-or-content", {"list": li, "pos": j, "got": repr(x), "want": repr(m)})
    keys = list(nil.keys())
    vals = list(nil.values())
    items = list(nil.items())
    if len(set(keys)) != len(keys):
        raise Violation("duplicate-names", {"list": li, "keys": keys})
    if len(keys) != len(actual):
        missing = [repr(x) for x in actual if not any(v is x for v in vals)]
        stale = [k for k, v in items if not any(v is x for x in actual)]
        raise Violation("name-count", {"list": li, "keys": keys, "n_items": len(actual),
                                       "items_without_name": missing[:4], "stale_names": stale[:4]})
    for x in actual:
        n = sum(1 for v in vals if v is x)
        if n != 1:
            raise Violation("item-not-under-exactly-one-name", {"list": li, "item": repr(x), "names": n})
    for k, v in items:
        if not any(v is x for x in actual):
            raise Violation("stale-name", {"list": li, "name": k})
        if not isinstance(k, str) or not k.isidentifier() or keyword.iskeyword(k):
            raise Violation("name-not-identifier", {"list": li, "name": k})
        try:
            by_key = nil[k]
        except Exception as e:  # noqa: BLE001
            raise Violation("key-lookup-fails", {"list": li, "name": k, "exc": type(e).__name__})
        if by_key is not v:
            raise Violation("key-lookup-wrong", {"list": li, "name": k})
        try:
            by_attr = getattr(nil, k)
        except Exception as e:  # noqa: BLE001
            raise Violation("attr-lookup-fails", {"list": li, "name": k, "exc": type(e).__name__})
        if by_attr is not v:
            raise Violation("attr-lookup-wrong", {"list": li, "name": k, "got": type(by_attr).__name__})
        if nil.get(k) is not v:
            raise Violation("get-lookup-wrong", {"list": li, "name": k})
        b = base_name(v.short_name)
        if not (k == b or re.fullmatch(re.escape(b) + r"_?[0-9]+", k)):
            raise Violation("name-not-derived-from-short-name", {"list": li, "name": k, "short_name": v.short_name})
        if hasattr(cls, k):
            raise Violation("name-shadows-class-attribute", {"list": li, "name": k})
    # names that are NOT registered refer to nothing - in particular not to the list's own members
    for probe in ("sort", "keys", "append", "_item_dict", "clear", "get", "zz_absent", "a"):
        if probe in keys:
            continue
        if nil.get(probe, _SENTINEL) is not _SENTINEL:
            raise Violation("unregistered-name-resolves", {"list": li, "name": probe, "via": "get"})
        try:
            nil[probe]
            raise Violation("unregistered-name-resolves", {"list": li, "name": probe, "via": "getitem"})
        except KeyError:
            pass
        if not hasattr(cls, probe) and not probe.startswith("_"):
            if getattr(nil, probe, _SENTINEL) is not _SENTINEL:
                raise Violation("unregistered-name-resolves", {"list": li, "name": probe, "via": "getattr"})
    for meth in ("append", "insert", "extend", "remove", "pop", "clear", "copy", "keys", "values", "items", "get"):
        m = getattr(nil, meth)
        if not callable(m) or getattr(m, "__self__", None) is not nil:
            raise Violation("method-shadowed", {"list": li, "method": meth})


def expected_plain(nil, item) -> Optional[str]:
    """The plain name the item must get if it has no clash at insertion time."""
    b = base_name(item.short_name)
    if b in list(nil.keys()) or hasattr(type(nil), b) or b in vars(nil):
        return None
    return b


def execute(trace: Dict[str, Any]) -> Dict[str, Any]:
    assert NIL is not None
    log = EventLog()
    lists: List[Any] = [NIL()]
    models: List[List[Any]] = [[]]
    states = set()
    counters: Dict[str, int] = {}
    faults: Dict[str, int] = {}
    probes: Dict[str, int] = {}
    violations: List[Dict[str, Any]] = []
    had_collision = False
    had_removal_or_copy = False
    ctr = [0]

    backref = bool(trace.get("backref"))
    cur_list: List[Any] = [None]

    def mk(ai: int) -> Item:
        sn, tag = ALPHABET[ai % len(ALPHABET)]
        ctr[0] += 1
        it = Item(sn, tag)
        if backref:
            it.owner = cur_list[0]
        return it

    def snapshot() -> None:
        for nil, model in zip(lists, models):
            try:
                st = (tuple(nil.keys()), tuple(getattr(x, "short_name", "?") for x in nil))
            except Exception:  # noqa: BLE001
                st = ("?",)
            states.add(h64("st", st))

    step = -1
    try:
        for step, op in enumerate(trace["ops"]):
            li = op[0] % len(lists)
            nil, model = lists[li], models[li]
            cur_list[0] = nil
            kind = op[1]
            counters["op_" + kind] = counters.get("op_" + kind, 0) + 1
            outcome: Any = "ok"
            plain: List[Tuple[Any, Optional[str]]] = []
            try:
                if kind == "append":
                    it = mk(op[2])
                    plain.append((it, expected_plain(nil, it)))
                    nil.append(it)
                    model.append(it)
                elif kind == "insert":
                    it = mk(op[3])
                    plain.append((it, expected_plain(nil, it)))
                    nil.insert(op[2], it)
                    model.insert(op[2], it)
                elif kind == "extend":
                    its = [mk(a) for a in op[2]]
                    if len(its) == 1:
                        plain.append((its[0], expected_plain(nil, its[0])))
                    how = op[3] if len(op) > 3 else "iter"
                    if how == "nil":
                        # the argument is itself a named item list (with its own, independently made-unique names)
                        arg: Any = NIL(its)
                    else:
                        arg = its if how == "list" else (tuple(its) if how == "tuple" else iter(its))
                    nil.extend(arg)
                    model.extend(its)
                elif kind == "extend_raise":
                    its = [mk(a) for a in op[2]]

                    def failing():
                        for x in its:
                            yield x
                        raise RuntimeError("iterator failed")

                    faults["extend_iterator_raises"] = faults.get("extend_iterator_raises", 0) + 1
                    try:
                        nil.extend(failing())
                        raise Violation("failing-op-succeeded", {"op": kind})
                    except RuntimeError:
                        outcome = "RuntimeError"
                    # the model accepts any prefix actually present
                    cur = list(nil)
                    k = len(cur) - len(model)
                    if k < 0 or k > len(its) or any(a is not b for a, b in zip(cur[len(model):], its[:k])):
                        raise Violation("cut-short-extend-not-a-prefix", {"list": li})
                    model.extend(its[:k])
                elif kind == "remove":
                    if model:
                        obj = model[op[2] % len(model)]
                        # list.remove removes the first item that compares equal
                        j = next(i for i, x in enumerate(model) if x == obj)
                        if model[j] is not obj:
                            probes["remove_hits_equal_twin"] = probes.get("remove_hits_equal_twin", 0) + 1
                        if sum(1 for x in model if x == obj) > 1:
                            probes["remove_with_equal_items_present"] = probes.get("remove_with_equal_items_present", 0) + 1
                        nil.remove(obj)
                        del model[j]
                    else:
                        faults["remove_from_empty"] = faults.get("remove_from_empty", 0) + 1
                        try:
                            nil.remove(Item("zz", 9))
                            raise Violation("failing-op-succeeded", {"op": kind})
                        except ValueError:
                            outcome = "ValueError"
                elif kind == "remove_absent":
                    faults["remove_absent"] = faults.get("remove_absent", 0) + 1
                    sn, _ = ALPHABET[op[2] % len(ALPHABET)]
                    try:
                        nil.remove(Item(sn, 99))
                        raise Violation("failing-op-succeeded", {"op": kind})
                    except ValueError:
                        outcome = "ValueError"
                elif kind == "pop":
                    idx = op[2]
                    if -len(model) <= idx < len(model):
                        if sum(1 for x in model if x == model[idx]) > 1:
                            probes["pop_with_equal_items_present"] = probes.get("pop_with_equal_items_present", 0) + 1
                        got = nil.pop(idx)
                        want = model.pop(idx)
                        if got is not want:
                            raise Violation("pop-returned-wrong-item", {"list": li})
                    else:
                        faults["pop_out_of_range"] = faults.get("pop_out_of_range", 0) + 1
                        try:
                            nil.pop(idx)
                            raise Violation("failing-op-succeeded", {"op": kind})
                        except IndexError:
                            outcome = "IndexError"
                elif kind == "clear":
                    nil.clear()
                    model.clear()
                elif kind == "copy":
                    new = nil.copy()
                    if type(new) is not type(nil):
                        raise Violation("copy-type", {"op": kind})
                    lists.append(new)
                    models.append(list(model))
                elif kind == "copycopy":
                    new = copy.copy(nil)
                    if type(new) is not type(nil):
                        raise Violation("copy-type", {"op": kind})
                    lists.append(new)
                    models.append(list(model))
                elif kind in ("deepcopy", "pickle"):
                    if kind == "deepcopy":
                        new = copy.deepcopy(nil)
                    else:
                        new = pickle.loads(pickle.dumps(nil, protocol=op[2]))
                        probes["restart_from_pickled_state"] = probes.get("restart_from_pickled_state", 0) + 1
                    if type(new) is not type(nil):
                        raise Violation("copy-type", {"op": kind})
                    newitems = list(new)
                    if len(newitems) != len(model) or any(a != b for a, b in zip(newitems, model)):
                        raise Violation("deep-copy-content", {"op": kind, "got": len(newitems), "want": len(model)})
                    if any(a is b for a, b in zip(newitems, model)):
                        raise Violation("deep-copy-shares-items", {"op": kind})
                    lists.append(new)
                    models.append(newitems)
                elif kind == "construct":
                    its = [mk(a) for a in op[2]]
                    src: Any = its if op[3] == "list" else (tuple(its) if op[3] == "tuple" else (
                        NIL(its) if op[3] == "nil" else (x for x in its)))
                    new = NIL(src)
                    lists.append(new)
                    models.append(list(its))
                elif kind == "insert_badindex":
                    # an index that list.insert() itself rejects: the call fails and must leave nothing behind
                    faults["insert_rejected_index"] = faults.get("insert_rejected_index", 0) + 1
                    bad: Any = {"huge": 2**70, "-huge": -2**70, "str": "0", "none": None, "float": 1.5}[op[2]]
                    try:
                        nil.insert(bad, mk(op[3]))
                        raise Violation("failing-op-succeeded", {"op": kind, "index": op[2]})
                    except Violation:
                        raise
                    except Exception as e:  # noqa: BLE001
                        outcome = type(e).__name__
                elif kind == "pop_badindex":
                    # an index that list.pop() itself rejects - in particular the *name* of a present item, which
                    # __getitem__ accepts: the call fails and must change nothing (seeded change C16-O)
                    faults["pop_rejected_index"] = faults.get("pop_rejected_index", 0) + 1
                    badp: Any = {"str": "0", "none": None, "float": 1.5}.get(op[2])
                    if op[2] == "name":
                        names = list(nil.keys())
                        badp = names[op[3] % len(names)] if names else "nosuchname"
                    try:
                        nil.pop(badp)
                        raise Violation("failing-op-succeeded", {"op": kind, "index": op[2]})
                    except Violation:
                        raise
                    except Exception as e:  # noqa: BLE001
                        outcome = type(e).__name__
                elif kind == "item_copy":
                    if model:
                        it0 = model[op[3] % len(model)]
                        it1 = copy.deepcopy(it0) if op[2] == "deepcopy" else pickle.loads(pickle.dumps(it0))
                        if it1 != it0 or it1 is it0:
                            raise Violation("item-copy-differs", {"how": op[2]})
                        probes["item_copied_" + op[2]] = probes.get("item_copied_" + op[2], 0) + 1
                elif kind == "real":
                    src = REAL_LISTS[op[2] % len(REAL_LISTS)]
                    how = op[3]
                    probes["real_" + how] = probes.get("real_" + how, 0) + 1
                    if how.endswith("_item"):
                        it0 = src[op[2] % len(src)]
                        it1 = copy.deepcopy(it0) if how == "deepcopy_item" else pickle.loads(pickle.dumps(it0))
                        if it1.short_name != it0.short_name or type(it1) is not type(it0):
                            raise Violation("real-item-copy-differs", {"how": how, "cls": type(it0).__name__})
                    else:
                        new = (src.copy() if how == "copy_list" else copy.deepcopy(src) if how == "deepcopy_list"
                               else pickle.loads(pickle.dumps(src)))
                        if type(new) is not type(src) or list(new.keys()) != list(src.keys()) or \
                                [x.short_name for x in new] != [x.short_name for x in src]:
                            raise Violation("real-list-copy-differs", {"how": how, "cls": type(src[0]).__name__})
                        check_list(new, list(new), True, -1)
                        # the copy is a working list: take an item out and put it back
                        x0 = new.pop()
                        check_list(new, list(new), True, -1)
                        new.insert(0, x0)
                        check_list(new, list(new), True, -1)
                        if new[0] is not x0 or len(new) != len(src):
                            raise Violation("real-list-copy-differs", {"how": how, "after": "pop/insert"})
                elif kind == "inspect":
                    # read-only use by a client (debugger, REPL completion, logging): nothing may change
                    names = list(nil.keys())
                    d = dir(nil)
                    missing = [k for k in names if k not in d]
                    if missing:
                        raise Violation("dir-misses-registered-name", {"list": li, "names": missing[:4]})
                    if any(not isinstance(x, str) for x in d):
                        raise Violation("dir-yields-non-string", {"list": li})
                    repr(nil), str(nil), bool(nil), list(reversed(nil)), nil[:], nil[1:], len(nil)
                    nil == list(model), nil != list(model), nil == nil  # evaluated, not judged
                    for x in model[:3]:
                        if x not in nil or nil[nil.index(x)] != x:
                            raise Violation("membership", {"list": li})
                    hasattr(nil, "zz_absent"), hasattr(nil, "a"), list(nil.values()), list(nil.items())
                    if model:
                        if nil[0] is not model[0] or nil[-1] is not model[-1]:
                            raise Violation("index-lookup", {"list": li})
                elif kind in ("append_nameless", "insert_nameless"):
                    faults["item_without_short_name"] = faults.get("item_without_short_name", 0) + 1
                    try:
                        if kind == "append_nameless":
                            nil.append(Nameless())
                        else:
                            nil.insert(op[2], Nameless())
                        raise Violation("failing-op-succeeded", {"op": kind})
                    except Violation:
                        raise
                    except Exception as e:  # noqa: BLE001
                        outcome = type(e).__name__
                else:
                    raise ValueError(kind)
                if kind in ("remove", "pop", "clear", "copy", "copycopy", "deepcopy", "pickle"):
                    had_removal_or_copy = True
                # invariants after every step, for every list in the pool
                for j, (l2, m2) in enumerate(zip(lists, models)):
                    check_list(l2, m2, True, j)
                    bases = [base_name(x.short_name) for x in m2]
                    if len(set(bases)) != len(bases):
                        had_collision = True
                for it, pl in plain:
                    if pl is not None:
                        names = [k for k, v in nil.items() if v is it]
                        if names != [pl]:
                            raise Violation("clash-free-item-did-not-get-plain-name",
                                            {"list": li, "short_name": it.short_name, "names": names})
            except Violation as v:
                violations.append({"oracle": "C16.inv-" + v.inv, "sig": {"op": kind},
                                   "detail": {"step": step, "op": op, **v.detail}})
                log.ev("oracle", "violation", {"inv": v.inv, "op": kind, "step": step})
                break
            except Exception as e:  # noqa: BLE001 - an operation that must succeed raised
                sig = exc_sig(e)
                violations.append({"oracle": "C16.op-raised", "sig": {"op": kind, **sig},
                                   "detail": {"step": step, "op": op, "msg": str(e)[:200]}})
                log.ev("oracle", "violation", {"op-raised": sig, "op": kind, "step": step})
                break
            log.ev(f"list{li}", kind, {"args": op[2:], "outcome": outcome,
                                        "names": [list(l.keys()) for l in lists]})
            snapshot()
    finally:
        pass
    return {
        "digest": log.digest(),
        "events": log.events,
        "counters": counters,
        "faults": faults,
        "probes": probes,
        "states": states,
        "sched_sig": h64("ops", tuple(o[1] for o in trace["ops"])),
        "sim_time": 0.0,
        "violations": violations,
        "nontrivial": had_collision and had_removal_or_copy,
        "sample": {"ops": trace["ops"][:40], "final_names": [list(l.keys()) for l in lists][:6]},
    }


# ------------------------------------------------------------------ minimisation
def trace_size(trace: Dict[str, Any]) -> int:
    return len(trace["ops"])


def simpler_op(op: List[Any]) -> List[List[Any]]:
    out = []
    if op[0] != 0:
        out.append([0] + op[1:])
    k = op[1]
    if k == "append" and op[2] != 0:
        out.append([op[0], k, 0])
        out.append([op[0], k, 1])
    if k == "insert":
        if op[2] != 0:
            out.append([op[0], k, 0, op[3]])
        if op[3] != 0:
            out.append([op[0], "append", op[3]])
            out.append([op[0], k, op[2], 0])
    if k == "extend" and len(op[2]) > 1:
        out.append([op[0], k, op[2][:1]] + op[3:])
        out.append([op[0], k, op[2][1:]] + op[3:])
    if k == "extend" and len(op) > 3 and op[3] != "iter":
        out.append([op[0], k, op[2]])
    if k == "extend" and len(op[2]) == 1:
        out.append([op[0], "append", op[2][0]])
    if k in ("remove", "pop") and op[2] not in (0, -1):
        out.append([op[0], k, 0])
        out.append([op[0], k, -1])
    if k in ("deepcopy", "pickle", "copycopy"):
        out.append([op[0], "copy"])
    if k == "construct" and op[2]:
        out.append([op[0], k, op[2][:-1], "list"])
    return out


def shrink(trace: Dict[str, Any], still_fails) -> Dict[str, Any]:
    budget = ShrinkBudget(4000)
    ops = ddmin_list(trace["ops"], lambda o: still_fails({**trace, "ops": o}), budget)
    ops = shrink_each(ops, simpler_op, lambda o: still_fails({**trace, "ops": o}), budget)
    ops = ddmin_list(ops, lambda o: still_fails({**trace, "ops": o}), budget)
    return {**trace, "ops": ops, "systematic": False}
