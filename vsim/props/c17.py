"""C17 - strict mode is honoured everywhere and lenient mode changes nothing valid.

Two actors: the *application* executes operations (encode / decode / load) from a corpus;
the *mode controller* assigns odxtools.exceptions.strict_mode.  The seeded scheduler lets
the controller run between operations and at pre-emption points inside operations
(sys.monitoring PY_START events of odxtools code).  The import-time value of the flag and
the bit-packing backend are per-process knobs; every run is executed in two sibling
interpreters (opposite import-time flag) and the parent compares the outcomes.
"""
import copy as _copy
import io
import json
import os
import sys
import zipfile
from typing import Any, Dict, List, Optional, Tuple

from ..can import world as W
from ..core import worker
from ..core.budget import HangVerdict
from ..core.envsim import environment
from ..core.evlog import EventLog, canon, exc_sig, exc_site
from ..core.seeds import Streams, h64, run_seed, weighted
from ..core.shrink import ShrinkBudget, ddmin_list
from . import c05

META: Dict[str, Any] = {
    "id": "C17",
    "level": "exploration",
    "pools": [{"backend": "c", "import_strict": True}, {"backend": "c", "import_strict": False},
              {"backend": "py", "import_strict": True}, {"backend": "py", "import_strict": False}],
    "tiers": {
        "quick": {"runs": 3000, "chunk": 30, "wall": 240, "chunk_wall": 400},
        "thorough": {"runs": 120000, "chunk": 40, "wall": 1200, "chunk_wall": 900},
    },
    "selftest_runs": 4,
    "rule": ("one run = 12-40 operations (decode through 4 entry points of valid / truncated / corrupted "
             "PDUs, encode with valid and invalid arguments, load of the shipped PDX and of ODX documents "
             "with one element or attribute deleted) on somersault and zoo layers, executed (A) under the "
             "flag constantly True and constantly False, (B) in sequence while the mode controller flips "
             "the flag between operations and at seeded pre-emption points inside operations; every run is "
             "executed in two sibling interpreters with opposite import-time flag value. Non-trivial: "
             "at least one operation's outcome differs between the modes and at least one flip happened. "
             "Distinct = distinct event-log digest."),
    "state_measure": "(operation kind, outcome class strict, outcome class lenient, raising site) tuples",
    "sim_time_note": "no time: the wall clock read by SYSTEM parameters is frozen by the simulator",
    "components": {
        "real": ["odxtools.exceptions (strict_mode, odxraise, odxassert, odxrequire)", "encode / decode stack",
                 "Database / XML parsing (load operations)"],
        "stub": ["mode controller (assigns the documented module global)", "clock and user name for SYSTEM parameters"],
    },
    "assumptions": ["results are compared structurally; exceptions by type and raising site, never by message",
                    "for flips that land inside an operation only the odxraise clause (O3) is evaluated"],
}

STATE: Dict[str, Any] = {}
MAX_POINTS = 4_000_000


def pool_of(rs: int, index: int) -> int:
    # run 2k and 2k+1 are the same trace, executed in sibling interpreters
    return 2 * (h64("c17backend", index // 2) % 2) + (index & 1)


# ------------------------------------------------------------------ value <-> JSON
def v2j(v: Any) -> Any:
    if isinstance(v, (bytes, bytearray)):
        return {"__b": bytes(v).hex()}
    if isinstance(v, tuple):
        return {"__t": [v2j(x) for x in v]}
    if isinstance(v, list):
        return [v2j(x) for x in v]
    if isinstance(v, dict):
        return {"__d": [[k, v2j(x)] for k, x in v.items()]}
    if isinstance(v, float):
        return {"__f": repr(v)}
    if v is None or isinstance(v, (bool, int, str)):
        return v
    if hasattr(v, "trouble_code"):
        return int(v.trouble_code)
    return {"__s": str(v)}


def j2v(j: Any) -> Any:
    if isinstance(j, dict):
        if "__b" in j:
            return bytes.fromhex(j["__b"])
        if "__t" in j:
            return tuple(j2v(x) for x in j["__t"])
        if "__d" in j:
            return {k: j2v(x) for k, x in j["__d"]}
        if "__f" in j:
            return float(j["__f"])
        if "__s" in j:
            return j["__s"]
    if isinstance(j, list):
        return [j2v(x) for x in j]
    return j


# ------------------------------------------------------------------ monitor (pre-emption points, O3)
class FlipMonitor:
    TOOL_ID = 3

    def __init__(self, pkg_dir: str, exc_mod):
        self.pkg_dir = pkg_dir.rstrip("/") + "/"
        self.exc_mod = exc_mod
        fn = getattr(exc_mod, "odxraise", None)
        self.odxraise_code = getattr(fn, "__code__", None)
        self.armed = False
        self.count = 0
        self.flips: Dict[int, bool] = {}
        self.stack: List[Tuple[bool, Optional[str]]] = []
        self.o3: List[Dict[str, Any]] = []
        self.flips_fired = 0
        self.odxraise_calls = {True: 0, False: 0}
        self.installed = False

    def install(self) -> None:
        mon = sys.monitoring
        mon.use_tool_id(self.TOOL_ID, "vsim-flip")
        E = mon.events
        mon.register_callback(self.TOOL_ID, E.PY_START, self._start)
        mon.register_callback(self.TOOL_ID, E.PY_UNWIND, self._unwind)
        mon.register_callback(self.TOOL_ID, E.PY_RETURN, self._return)
        mon.set_events(self.TOOL_ID, E.PY_START | E.PY_UNWIND)
        if self.odxraise_code is not None:
            mon.set_local_events(self.TOOL_ID, self.odxraise_code, E.PY_RETURN)
        self.installed = True

    def _start(self, code, offset):
        if not code.co_filename.startswith(self.pkg_dir):
            return sys.monitoring.DISABLE
        if not self.armed:
            return None
        k = self.count
        self.count = k + 1
        if k in self.flips:
            if self.stack and code is not self.odxraise_code:
                # inside odxraise (e.g. in a helper it calls): "the instant of the call" would be ambiguous,
                # so the controller waits until odxraise has decided
                self.flips[k + 1] = self.flips.pop(k)
            else:
                self.exc_mod.strict_mode = self.flips[k]
                self.flips_fired += 1
        if code is self.odxraise_code:
            flag = bool(self.exc_mod.strict_mode)
            self.odxraise_calls[flag] += 1
            caller = None
            try:
                fr = sys._getframe(1)
                # frame 1 is the monitored function itself; walk to its caller(s) outside exceptions.py
                while fr is not None and fr.f_code.co_filename.endswith("exceptions.py"):
                    fr = fr.f_back
                if fr is not None:
                    caller = os.path.basename(fr.f_code.co_filename) + ":" + fr.f_code.co_name
            except Exception:  # noqa: BLE001
                caller = None
            self.stack.append((flag, caller))
        if self.count > MAX_POINTS:
            self.armed = False
            raise HangVerdict("pre-emption point budget exhausted")
        return None

    def _return(self, code, offset, retval):
        if code is self.odxraise_code and self.armed and self.stack:
            flag, caller = self.stack.pop()
            if flag:
                self.o3.append({"what": "returned-normally-in-strict-mode", "caller": caller})
        return None

    def _unwind(self, code, offset, exc):
        if code is self.odxraise_code and self.armed and self.stack:
            flag, caller = self.stack.pop()
            if not flag and not isinstance(exc, HangVerdict):
                self.o3.append({"what": "raised-in-lenient-mode", "caller": caller})
        return None

    def arm(self, flips: Dict[int, bool]) -> None:
        self.count = 0
        self.flips = flips
        self.stack = []
        self.armed = True

    def disarm(self) -> int:
        self.armed = False
        return self.count


# ------------------------------------------------------------------ worker state
class _FrozenDatetime:
    """Stands in for `datetime` inside odxtools.parameters.systemparameter."""

    @staticmethod
    def now():
        import datetime as _dt
        return _dt.datetime(2024, 2, 29, 23, 59, 58, 123000)


def worker_init() -> None:
    import odxtools
    exc_mod = sys.modules["odxtools.exceptions"]
    STATE["exc_mod"] = exc_mod
    STATE["import_flag"] = bool(exc_mod.strict_mode)
    exc_mod.strict_mode = True
    # the clock and the user name seen by SYSTEM parameters are served by the simulator
    import odxtools.parameters.systemparameter as sp
    sp.datetime = _FrozenDatetime  # type: ignore[attr-defined]
    sp.getpass = type("G", (), {"getuser": staticmethod(lambda: "simuser")})  # type: ignore[attr-defined]
    from odxtools.exceptions import DecodeError
    c05.STATE["DecodeError"] = DecodeError
    repo = worker.repo_dir()
    layers: Dict[str, Any] = {}
    p = os.path.join(repo, "examples", "somersault.pdx")
    STATE["pdx_path"] = p
    db = odxtools.load_pdx_file(p)
    for dl in db.diag_layers:
        layers[f"somersault:{dl.short_name}"] = dl
    from ..zoo.layers import MATRIX_KINDS, build_matrix_layer, build_zoo_layer, matrix_examples
    zoo_truth = {}
    for z in range(c05.N_ZOO):
        layer, truth, used = build_zoo_layer(z)
        layers[f"zoo:{z}"] = layer
        zoo_truth[f"zoo:{z}"] = {"examples": truth.get("examples", {})}
    for kind in MATRIX_KINDS:
        layers[f"zoo:m_{kind}"] = build_matrix_layer(kind)
        zoo_truth[f"zoo:m_{kind}"] = {"examples": matrix_examples(kind)}
    # a layer whose description violates the specification (illegal type/encoding combinations):
    # strict mode reports these as errors, lenient mode downgrades them
    STATE["bad_layer"] = build_matrix_layer("bad")
    c05.STATE["layers"] = layers
    c05.STATE["layer_names"] = sorted(layers)
    c05.STATE["zoo_truth"] = zoo_truth
    c05.build_corpus(ascii_tails=True)
    layers = dict(layers)
    layers["bad:0"] = STATE["bad_layer"]
    STATE["layers"] = layers
    STATE["layer_names"] = sorted(layers)
    with zipfile.ZipFile(p) as z:
        STATE["odx_docs"] = {n: z.read(n) for n in sorted(z.namelist()) if n.endswith(".odx-d")}
        # the documents they refer to (comparam subsets / specs): loaded unmodified alongside
        STATE["odx_other"] = {n: z.read(n) for n in sorted(z.namelist())
                              if os.path.splitext(n)[1].lower().startswith(".odx") and not n.endswith(".odx-d")}
        STATE["aux_files"] = {n: z.read(n) for n in sorted(z.namelist())
                              if not os.path.splitext(n)[1].lower().startswith(".odx") and n != "index.xml"}
    make_bad_pdx()
    build_ops()
    exc_mod.strict_mode = True
    # harness sanity: an unmutated document must load through the same code path the load operations use
    with W.quiet():
        chk = run_op(["load", "odx-mut", sorted(STATE["odx_docs"])[0], "none", 0])
    if chk[0] != "ok":
        raise RuntimeError(f"C17 harness: loading an unmutated ODX document failed: {chk}")
    mon = FlipMonitor(worker.pkg_dir(), exc_mod)
    mon.install()
    STATE["mon"] = mon


def make_bad_pdx() -> None:
    """A copy of the shipped PDX with one violation of the specification that strict mode reports through the
    strictness mechanism and lenient mode downgrades (found by trying a few candidates on the tree under test)."""
    import atexit
    import re
    import shutil
    import tempfile

    import odxtools
    exc_mod = STATE["exc_mod"]
    STATE["bad_pdx_path"] = None
    cands = [(r"<LOWER-LIMIT>", '<LOWER-LIMIT INTERVAL-TYPE="BOGUS">'), (r"<UPPER-LIMIT>", '<UPPER-LIMIT INTERVAL-TYPE="BOGUS">'),
             (r'IS-VISIBLE="true"', 'IS-VISIBLE="maybe"'), (r"<PHYSICAL-TYPE BASE-DATA-TYPE=\"A_UINT32\"", '<PHYSICAL-TYPE BASE-DATA-TYPE="A_BOGUS"')]
    d = tempfile.mkdtemp(prefix="vsim-c17-")
    owner = os.getpid()
    atexit.register(lambda: shutil.rmtree(d, ignore_errors=True) if os.getpid() == owner else None)
    with zipfile.ZipFile(STATE["pdx_path"]) as zin:
        members = {n: zin.read(n) for n in zin.namelist()}
    for ci, (pat, rep) in enumerate(cands):
        path = os.path.join(d, f"bad{ci}.pdx")
        done = False
        with zipfile.ZipFile(path, "w", zipfile.ZIP_DEFLATED) as zout:
            for n, data in members.items():
                if not done and n.endswith(".odx-d"):
                    text, k = re.subn(pat, rep, data.decode("utf-8"), 1)
                    if k:
                        data, done = text.encode("utf-8"), True
                zout.writestr(n, data)
        if not done:
            continue
        outcome = {}
        for v in (True, False):
            exc_mod.strict_mode = v
            try:
                with W.quiet():
                    odxtools.load_pdx_file(path)
                outcome[v] = "ok"
            except Exception as e:  # noqa: BLE001
                outcome[v] = exc_site(e)
        exc_mod.strict_mode = True
        if outcome[True] != "ok" and outcome[True].endswith("[odxraise]") and outcome[False] == "ok":
            STATE["bad_pdx_path"] = path
            return


def settable_kwargs(co, decoded: Dict[str, Any]) -> Dict[str, Any]:
    out = {}
    for p in co.parameters:
        if p.short_name in decoded and getattr(p, "is_settable", False):
            out[p.short_name] = decoded[p.short_name]
    return out


def build_ops() -> None:
    """Operation corpus per layer (deterministic: fixed seeds, strict mode)."""
    import random
    ops: Dict[str, List[List[Any]]] = {}
    with W.quiet():
        for lname in STATE["layer_names"]:
            if lname.startswith("bad:"):
                continue
            layer = STATE["layers"][lname]
            r = random.Random(h64("c17ops", lname))
            lst: List[List[Any]] = []
            corpus = c05.STATE["corpus"][lname]
            reqs = [e for e in corpus if e["kind"] == "rq"]
            alpha = c05.layer_alphabet(lname)
            for e in corpus:
                base = bytes.fromhex(e["pdu"])
                rq = next((x["pdu"] for x in reqs if x["svc"] == e["svc"]), "")
                variants = [base]
                if len(base) > 1:
                    variants.append(base[:r.randint(1, len(base) - 1)])
                    i = r.randrange(len(base))
                    variants.append(base[:i] + bytes([r.choice([0, 0x7F, 0x80, 0xFF, base[i] ^ 1])]) + base[i + 1:])
                    variants.append(base[:-1] + bytes([0xC3]))  # invalid UTF-8 tail
                    variants.append(base + bytes([r.getrandbits(8)]))
                if e["kind"] != "rq" and len(base) >= 1:
                    variants.append(bytes([0x7F, (base[0] - 0x40) & 0xFF, 0x78]))
                    variants.append(bytes([0x7F, (base[0] - 0x40) & 0xFF, r.choice([0x11, 0x31])]))
                for v in variants:
                    h = v.hex()
                    lst.append(["dec", lname, "C", h, None, [e["svc"], e["co"]]])
                    lst.append(["dec", lname, "L", h, None, None])
                    lst.append(["dec", lname, "R", h, rq, None])
                    lst.append(["dec", lname, "S", h, None, [e["svc"], None]])
                # encode operations from the decoded values of the valid PDU
                svc, co = c05.find_objects(layer, e["svc"], e["co"])
                if co is None:
                    continue
                try:
                    decoded = co.decode(base)
                    good = settable_kwargs(co, decoded)
                except Exception:  # noqa: BLE001
                    continue
                rqb = rq if e["kind"] != "rq" else None
                lst.append(["enc", lname, e["svc"], e["co"], v2j(good), rqb])
                names = list(good)
                if names:
                    k = r.choice(names)
                    val = good[k]
                    bad_variants: List[Dict[str, Any]] = []
                    b1 = dict(good)
                    del b1[k]
                    bad_variants.append(b1)  # missing (possibly required) parameter
                    b2 = dict(good)
                    b2["zz_unknown"] = 1
                    bad_variants.append(b2)  # unknown parameter
                    b3 = dict(good)
                    b3[k] = "abc" if not isinstance(val, str) else 12345  # wrong type
                    bad_variants.append(b3)
                    b4 = dict(good)
                    if isinstance(val, bool):
                        b4[k] = 7
                    elif isinstance(val, int):
                        # (not astronomically large: a length key of 2**70 bits makes the
                        # pure-python bitstruct backend allocate without bound in lenient mode,
                        # which is the documented "undefined behaviour" and not a verdict)
                        b4[k] = r.choice([70000, -1, 300, -70000])
                    elif isinstance(val, float):
                        b4[k] = 1e300
                    elif isinstance(val, str):
                        b4[k] = val * 100 + "€"
                    elif isinstance(val, (bytes, bytearray)):
                        b4[k] = bytes(val) * 100 + b"\x01"
                    elif isinstance(val, dict):
                        b4[k] = {}
                    elif isinstance(val, list):
                        b4[k] = val * 300 + [None]
                    elif isinstance(val, tuple):
                        b4[k] = ("no_such_case", {})
                    else:
                        b4[k] = None
                    bad_variants.append(b4)  # out of range / over-long
                    for kk, vv in good.items():
                        # an unknown parameter inside a nested value (structure / field item / multiplexer case)
                        if isinstance(vv, dict):
                            b5 = _copy.deepcopy(good)
                            b5[kk]["zz_unknown"] = 1
                            bad_variants.append(b5)
                            break
                        if isinstance(vv, list) and vv and isinstance(vv[0], dict):
                            b5 = _copy.deepcopy(good)
                            b5[kk][0]["zz_unknown"] = 1
                            bad_variants.append(b5)
                            break
                    for b in bad_variants:
                        lst.append(["enc", lname, e["svc"], e["co"], v2j(b), rqb])
                else:
                    lst.append(["enc", lname, e["svc"], e["co"], v2j({"zz_unknown": 1}), rqb])
            # garbage through the layer
            for _ in range(6):
                s = bytes([r.choice(alpha)]) + bytes(r.getrandbits(8) for _ in range(r.randint(0, 6)))
                lst.append(["dec", lname, "L", s.hex(), None, None])
            ops[lname] = lst
        # the spec-violating layer: operations are crafted, not decode-guided (strict mode rejects all)
        layer = STATE["layers"]["bad:0"]
        lst = []
        for svc in layer.services:
            for co, kind in [(svc.request, "rq")] + [(x, "rs") for x in svc.positive_responses]:
                try:
                    prefix = bytes(co.coded_const_prefix())
                except Exception:  # noqa: BLE001 - strict mode rejects the description itself
                    prefix = bytes([0x31 if kind == "rq" else 0x71])
                for tail in (b"", b"\x41\x42", b"\x12\x34\x41\x00", b"\xc3\x28\x00\x00\x00\x00\x00\x00\x00"):
                    h = (prefix + tail).hex()
                    lst.append(["dec", "bad:0", "C", h, None, [svc.short_name, co.short_name]])
                    lst.append(["dec", "bad:0", "L", h, None, None])
                for val in ("AB", 5, 1.5, b"\x01\x02"):
                    kw = {p.short_name: val for p in co.parameters if getattr(p, "is_settable", False)}
                    lst.append(["enc", "bad:0", svc.short_name, co.short_name, v2j(kw), None])
        ops["bad:0"] = lst
    STATE["ops"] = ops


# ------------------------------------------------------------------ generation
def kept_sweep(tier: str) -> List[Tuple[str, int, bool, bool]]:
    """Systematic part: every refresh-time value of the shipped document replaced by a value of the wrong lexical
    form, the database loaded under one mode and refreshed under the other."""
    cached = STATE.get(("sweep", tier))
    if cached is not None:
        return cached
    from xml.etree import ElementTree
    out = []
    tags = ("PHYSICAL-DEFAULT-VALUE", "PHYS-CONSTANT-VALUE", "LOWER-LIMIT", "UPPER-LIMIT", "V", "KEY", "CODED-VALUE",
            "TERMINATION-VALUE")
    for doc in sorted(STATE["odx_docs"]):
        root = ElementTree.fromstring(STATE["odx_docs"][doc])
        n = len([e for e in root.iter() if e.tag in tags and e.text and e.text.strip()])
        values = (0, 1, 2) if tier == "quick" else (0, 1, 2, 3, 4, 5)
        combos = ((False, True), (True, False)) if tier == "quick" else ((False, True), (True, False), (True, True), (False, False))
        for el in range(n):
            for vi in values:
                for a, b in combos:
                    out.append((doc, el + n * vi, a, b))
    STATE[("sweep", tier)] = out
    return out


def gen(rs: int, index: int, tier: str) -> Dict[str, Any]:
    batch_seed = worker._STATE.get("batch_seed", 0)
    sweep = kept_sweep(tier)
    if index // 2 < len(sweep):
        doc, k, load_flag, refresh_flag = sweep[index // 2]
        return {"kind": "run", "ops": [["load_keep", doc, "textval2", k], ["refresh_kept"]],
                "flips": [[1, -1, refresh_flag]], "initial": load_flag}
    S = Streams(h64("C17run", batch_seed, index // 2))
    r = S.rng("ops")
    names = STATE["layer_names"]
    n_layers = r.choice([1, 1, 2])
    chosen = [r.choice(names) for _ in range(n_layers)]
    n_ops = r.randint(12, 40)
    w_kind = {"dec": r.choice([1, 3, 5]), "enc": r.choice([1, 3, 5])}
    ops: List[List[Any]] = []
    for _ in range(n_ops):
        lname = r.choice(chosen)
        pool = STATE["ops"][lname]
        kind = weighted(r, ["dec", "enc"], [w_kind["dec"], w_kind["enc"]])
        cands = [o for o in pool if o[0] == kind] or pool
        ops.append(r.choice(cands))
    # load operations are slow (tens of ms): a few per run at most
    rl = S.rng("load")
    for _ in range(weighted(rl, [0, 1, 2], [5, 3, 1])):
        if rl.random() < 0.25:
            op = ["load", "pdx"]
        else:
            doc = rl.choice(sorted(STATE["odx_docs"]))
            op = ["load", "odx-mut", doc, rl.choice(["elem", "elem", "attr", "text", "textval"]), rl.randint(0, 100000)]
        ops.insert(rl.randint(0, len(ops)), op)
    # an object that outlives a mode switch: a database loaded under one mode and refreshed under another
    rk = S.rng("keep")
    if rk.random() < 0.5:
        doc = rk.choice(sorted(STATE["odx_docs"]))
        what = rk.choice(["textval2", "textval2", "textval2", "textval", "elem", "attr", "text"])
        pos = rk.randint(0, max(0, len(ops) - 1))
        ops.insert(pos, ["load_keep", doc, what, rk.randint(0, 100000)])
        for _ in range(rk.randint(1, 2)):
            ops.insert(rk.randint(pos + 1, len(ops)), ["refresh_kept"])
    # the command line front end switches the mode for the duration of a tool run
    rc = S.rng("cli")
    for _ in range(weighted(rc, [0, 1, 2], [6, 3, 1])):
        argv = rc.choice([
            ["--no-strict", "list", "PDX"], ["list", "PDX"], ["--no-strict", "list", "/nonexistent/file.pdx"],
            ["--no-strict", "snoop", "PDX", "--variant", "no_such_variant"], ["snoop", "PDX", "--variant", "no_such_variant"],
            ["--no-strict", "find", "PDX", "-d", "1003"], ["--no-strict", "decode", "PDX", "-d", "zz"],
            ["--no-strict", "compare", "PDX", "-v", "nonexistent_a", "nonexistent_b"],
            ["--no-strict", "list", "BADPDX"], ["list", "BADPDX"], ["--no-strict", "list", "BADPDX"],
            ["--no-strict", "find", "BADPDX", "-d", "1003"], ["--no-strict", "list", "-a", "BADPDX"],
        ])
        ops.insert(rc.randint(0, len(ops)), ["cli", argv])
    # codec state objects prepared by the caller under one mode and used under another
    rp = S.rng("prepared")
    if rp.random() < 0.6:
        cands = [o for o in ops if (o[0] == "dec" and o[2] == "C") or o[0] == "enc"]
        rp.shuffle(cands)
        for o in cands[:rp.randint(1, 5)]:
            if o[0] == "dec":
                pop = ["decp", o[1], o[5][0], o[5][1], o[3], rp.random() < 0.5]
            else:
                pop = ["encp", o[1], o[2], o[3], o[4], o[5], rp.random() < 0.5]
            ops.insert(rp.randint(0, len(ops)), pop)
    rf = S.rng("flips")
    flips: List[List[Any]] = []
    n_flips = rf.choice([0, 2, 5, 10, 30])
    for _ in range(n_flips):
        oi = rf.randint(0, len(ops) - 1)
        if rf.random() < 0.5:
            flips.append([oi, -1, rf.random() < 0.5])
        else:
            flips.append([oi, rf.choice([0, 1, 2, 5, 10, 20, 50, 100, 200, rf.randint(0, 400)]), rf.random() < 0.5])
    flips.sort(key=lambda f: (f[0], f[1]))
    t = {"kind": "run", "ops": ops, "flips": flips, "initial": rf.random() < 0.5}
    # environment variation: warnings escalated to exceptions (python -W error, pytest filterwarnings=error)
    if S.rng("env").random() < 1 / 6:
        t["env"] = {"warnings": "error"}
    return t


# ------------------------------------------------------------------ executing operations
def mutate_odx(doc: bytes, what: str, k: int):
    """Delete the k-th element / attribute / text of an ODX document (a specification
    violation that odxrequire/odxassert may flag)."""
    from xml.etree import ElementTree
    root = ElementTree.fromstring(doc)
    if what == "none":
        return root
    if what == "elem":
        pairs = [(p, c) for p in root.iter() for c in list(p)]
        if pairs:
            p, c = pairs[k % len(pairs)]
            p.remove(c)
    elif what == "attr":
        pairs2 = [(e, a) for e in root.iter() for a in sorted(e.attrib)]
        if pairs2:
            e, a = pairs2[k % len(pairs2)]
            del e.attrib[a]
    elif what == "textval2":
        # the same, aimed at values that are converted when the database is refreshed (not when it is parsed)
        tags = ("PHYSICAL-DEFAULT-VALUE", "PHYS-CONSTANT-VALUE", "LOWER-LIMIT", "UPPER-LIMIT", "V", "KEY", "CODED-VALUE",
                "TERMINATION-VALUE")
        els = [e for e in root.iter() if e.tag in tags and e.text and e.text.strip()]
        if els:
            e = els[k % len(els)]
            e.text = ["2.5", "abc", "-1", "0x10", "99999999999", "1e3"][(k // max(1, len(els))) % 6]
    elif what == "textval":
        # a value of the wrong lexical form (e.g. "2.5" where an integer is expected)
        els = [e for e in root.iter() if e.text and e.text.strip() and len(e) == 0]
        if els:
            e = els[k % len(els)]
            e.text = ["2.5", "abc", "-1", "0x10", "99999999999", "1e3"][(k // max(1, len(els))) % 6]
    else:
        els = [e for e in root.iter() if e.text and e.text.strip()]
        if els:
            e = els[k % len(els)]
            e.text = ""
    return root


def xml_stream(root):
    """The (mutated) document as a byte stream for Database.add_odx_file() (ElementTree.parse accepts it)."""
    from xml.etree import ElementTree
    return io.BytesIO(ElementTree.tostring(root, encoding="utf-8", xml_declaration=True))


def db_summary(db) -> Any:
    out = []
    for dl in db.diag_layers:
        out.append([dl.short_name, dl.variant_type.value, len(dl.services),
                    len(dl.diag_data_dictionary_spec.data_object_props),
                    sorted(s.short_name for s in dl.services)[:50]])
    return out


def run_op(op: List[Any]) -> Tuple[str, Any]:
    """Returns ('ok', canonical result) or ('exc', {exc, site})."""
    kind = op[0]
    try:
        if kind == "dec":
            _, lname, entry, pdu_hex, req_hex, target = op
            layer = STATE["layers"][lname]
            pdu = bytes.fromhex(pdu_hex)
            if entry == "L":
                res = layer.decode(pdu)
            elif entry == "R":
                res = layer.decode_response(pdu, bytes.fromhex(req_hex or ""))
            elif entry == "S":
                svc, _ = c05.find_objects(layer, target[0], None)
                res = svc.decode_message(pdu)
            else:
                svc, co = c05.find_objects(layer, target[0], target[1])
                res = co.decode(pdu)
            if isinstance(res, list):
                out = [[getattr(m.coding_object, "short_name", None), v2j(m.param_dict)] for m in res]
            elif hasattr(res, "param_dict"):
                out = [getattr(res.coding_object, "short_name", None), v2j(res.param_dict)]
            else:
                out = v2j(res)
            return "ok", out
        if kind == "enc":
            _, lname, svc_name, co_name, kwargs_j, req_hex = op
            layer = STATE["layers"][lname]
            svc, co = c05.find_objects(layer, svc_name, co_name)
            # the client keeps its argument objects and passes the same ones again when it repeats a call
            cache = STATE.setdefault("kw_cache", {})
            ck = op_key(op)
            if ck not in cache:
                cache[ck] = j2v(kwargs_j)
            kwargs = cache[ck]
            if req_hex is not None:
                res = co.encode(coded_request=bytes.fromhex(req_hex), **kwargs)
            else:
                res = co.encode(**kwargs)
            return "ok", bytes(res).hex()
        if kind in ("decp", "encp"):
            # the caller prepares the codec state object while the flag has the value op[-1] and uses
            # it under the current mode: only the mode at the time of USE may matter
            from odxtools.decodestate import DecodeState
            from odxtools.encodestate import EncodeState
            exc_mod = STATE["exc_mod"]
            layer = STATE["layers"][op[1]]
            svc, co = c05.find_objects(layer, op[2], op[3])
            cur = exc_mod.strict_mode
            exc_mod.strict_mode = bool(op[-1])
            try:
                if kind == "decp":
                    state: Any = DecodeState(coded_message=bytes.fromhex(op[4]))
                else:
                    state = EncodeState(triggering_request=bytes.fromhex(op[5]) if op[5] is not None else None,
                                        is_end_of_pdu=True)
            finally:
                exc_mod.strict_mode = cur
            if kind == "decp":
                return "ok", v2j(co.decode_from_pdu(state))
            co.encode_into_pdu(physical_value=j2v(op[4]), encode_state=state)
            return "ok", bytes(state.coded_message).hex()
        if kind == "load":
            import odxtools
            from odxtools.database import Database
            if op[1] == "pdx":
                db = odxtools.load_pdx_file(STATE["pdx_path"])
            else:
                root = mutate_odx(STATE["odx_docs"][op[2]], op[3], op[4])
                db = Database()
                for other in STATE["odx_other"].values():
                    db.add_odx_file(io.BytesIO(other))  # type: ignore[arg-type]
                for an, ab in STATE["aux_files"].items():
                    db.add_auxiliary_file(an, io.BytesIO(ab))
                db.add_odx_file(xml_stream(root))  # type: ignore[arg-type]
                db.refresh()
            return "ok", db_summary(db)
        if kind == "load_keep":
            from odxtools.database import Database
            STATE["kept"] = None
            root = mutate_odx(STATE["odx_docs"][op[1]], op[2], op[3])
            db = Database()
            for other in STATE["odx_other"].values():
                db.add_odx_file(io.BytesIO(other))  # type: ignore[arg-type]
            for an, ab in STATE["aux_files"].items():
                db.add_auxiliary_file(an, io.BytesIO(ab))
            db.add_odx_file(xml_stream(root))  # type: ignore[arg-type]
            db.refresh()
            STATE["kept"] = (db, op[1:4])
            return "ok", db_summary(db)
        if kind == "refresh_kept":
            kept = STATE.get("kept")
            if kept is None:
                return "ok", "no-db"
            kept[0].refresh()
            return "ok", db_summary(kept[0])
        if kind == "cli":
            import odxtools.cli.main as cli_main
            argv = ["odxtools"] + [STATE["pdx_path"] if a == "PDX" else
                                   ((STATE.get("bad_pdx_path") or STATE["pdx_path"]) if a == "BADPDX" else a) for a in op[1]]
            old_argv = sys.argv
            sys.argv = argv
            try:
                try:
                    cli_main.start_cli()
                    return "ok", "returned"
                except SystemExit as e:
                    return "ok", f"exit:{e.code if isinstance(e.code, int) or e.code is None else 'msg'}"
            finally:
                sys.argv = old_argv
        raise ValueError(kind)
    except HangVerdict:
        raise
    except Exception as e:  # noqa: BLE001
        sig = exc_sig(e)
        if kind in ("load", "load_keep", "refresh_kept"):
            import traceback
            thru = any(fs.name == "refresh" and fs.filename.endswith("database.py")
                       for fs in traceback.extract_tb(e.__traceback__))
            sig["phase"] = "refresh" if thru else "parse"
        return "exc", sig


def result_shape(op: List[Any], st: List[Any], sl: List[Any]) -> str:
    """Coarse class of an O1 difference (part of the violation signature)."""
    if op[0] != "dec" or op[2] not in ("L", "R"):
        return "-"
    layer = STATE["layers"][op[1]]
    gnrs = {g.short_name for g in getattr(layer, "global_negative_responses", [])}

    def cls(o: List[Any]) -> str:
        if o[0] != "ok":
            return "exc"
        names = [m[0] for m in o[1]] if isinstance(o[1], list) else []
        if any(n is None for n in names):
            return "placeholder"
        if names and all(n in gnrs for n in names):
            return "gnr-fallback"
        return "service-decode"

    cs, cl = cls(st), cls(sl)
    if cs == cl == "service-decode":
        # several services were candidates: the fallback to the global negative response is per service
        ns, nl = [m[0] for m in st[1]], [m[0] for m in sl[1]]
        if len(ns) == len(nl):
            diff = [i for i in range(len(ns)) if st[1][i] != sl[1][i]]
            if diff and all(ns[i] in gnrs and nl[i] not in gnrs for i in diff):
                cs = "gnr-fallback"
    return f"strict={cs},lenient={cl}"


def strict_failure_site(op: List[Any], sl: List[Any], exc_mod) -> str:
    """Raising site of the strict-mode failure of the service-level decode that lenient mode lets through."""
    layer = STATE["layers"][op[1]]
    pdu = bytes.fromhex(op[3])
    names = [m[0] for m in sl[1]] if isinstance(sl[1], list) else []
    sites = set()
    old = exc_mod.strict_mode
    exc_mod.strict_mode = True
    try:
        for svc in layer.services:
            cos = ([svc.request] if svc.request is not None else []) + list(svc.positive_responses) + list(
                svc.negative_responses)
            for co in cos:
                if co.short_name in names:
                    try:
                        co.decode(pdu)
                    except Exception as e:  # noqa: BLE001
                        sites.add(type(e).__name__ + "@" + exc_site(e))
        if not sites:
            # every coding object decodes the bytes on its own: the failure is at the level of the service
            # (e.g. more than one of its coding objects accepts the message)
            for svc in layer.services:
                cos = ([svc.request] if svc.request is not None else []) + list(svc.positive_responses) + list(
                    svc.negative_responses)
                if any(co.short_name in names for co in cos):
                    try:
                        svc.decode_message(pdu)
                    except Exception as e:  # noqa: BLE001
                        sites.add(type(e).__name__ + "@" + exc_site(e))
    finally:
        exc_mod.strict_mode = old
    return ",".join(sorted(sites)) or "none"


def outcome_class(o: str) -> str:
    """'ok' or '<exception type>@<file of the raising site>' of a canonical outcome string."""
    j = json.loads(o)
    if j[0] == "ok":
        return "ok"
    return f"{j[1].get('exc')}@{str(j[1].get('site')).split(':')[0]}"


def outcome_str(o: Tuple[str, Any]) -> str:
    return json.dumps([o[0], o[1]], sort_keys=True, default=str)


def op_key(op: List[Any]) -> str:
    return json.dumps(op, sort_keys=True)


def execute(trace: Dict[str, Any]) -> Dict[str, Any]:
    log = EventLog()
    exc_mod = STATE["exc_mod"]
    mon: FlipMonitor = STATE["mon"]
    violations: List[Dict[str, Any]] = []
    counters: Dict[str, int] = {}
    probes: Dict[str, int] = {}
    faults: Dict[str, int] = {}
    states = set()
    cross: Dict[int, int] = {}
    mon.o3 = []
    mon.flips_fired = 0
    mon.odxraise_calls = {True: 0, False: 0}
    ops = trace["ops"]
    STATE["kw_cache"] = {}
    log.ev("sim", "config", {"kind": trace["kind"], "n_ops": len(ops), "n_flips": len(trace.get("flips", []))})
    differs = False
    env = trace.get("env")
    envtag = json.dumps(env, sort_keys=True) if env else ""
    if env:
        log.ev("sim", "env", env)
        faults["env_warnings_" + str(env.get("warnings"))] = 1
    try:
        with W.quiet(), environment(env):
            if trace["kind"] == "cross":
                # an outcome observed in the sibling interpreter (opposite import-time flag)
                op, v = trace["ops"][0], trace["v"]
                exc_mod.strict_mode = v
                mon.arm({})
                o = outcome_str(run_op(op))
                mon.disarm()
                log.ev("app", "op", {"op": op[:3], "v": v, "outcome": o[:300]})
                if h64(o) != trace["sibling_outcome"]:
                    violations.append({
                        "oracle": "C17.O2-import-time-independence",
                        "sig": {"kind": op[0], "v": v},
                        "detail": {"op": op, "flag": v, "this_interpreter_import_flag": STATE["import_flag"],
                                   "outcome_here": o[:400], "sibling_outcome_digest": trace["sibling_outcome"]}})
            else:
                # phase A: reference outcomes under constant flag values
                ref: Dict[str, Dict[bool, str]] = {}
                order: List[List[Any]] = []
                STATE["kept"] = None
                for op in ops:
                    if op[0] in ("load_keep", "refresh_kept"):
                        continue  # stateful: judged in the history against a fresh load (below)
                    k = op_key(op)
                    if k not in ref:
                        ref[k] = {}
                        order.append(op)
                for op in order:
                    k = op_key(op)
                    for v in (True, False):
                        exc_mod.strict_mode = v
                        mon.arm({})
                        o = run_op(op)
                        n_points = mon.disarm()
                        if bool(exc_mod.strict_mode) != v:
                            violations.append({
                                "oracle": "C17.O5-operations-leave-the-switch-alone", "sig": {"kind": op[0]},
                                "detail": {"op": op[:3], "flag_before": v, "flag_after": bool(exc_mod.strict_mode)}})
                        ref[k][v] = outcome_str(o)
                        cross[h64(k, v, envtag)] = h64(ref[k][v])
                        log.ev("app", "ref", {"op": op[:3], "v": v, "outcome": h64(ref[k][v])})
                        counters["preemption_points"] = counters.get("preemption_points", 0) + n_points
                    if op[0] in ("decp", "encp"):
                        twin = op[:-1] + [not op[-1]]
                        for v in (True, False):
                            exc_mod.strict_mode = v
                            mon.arm({})
                            o2 = outcome_str(run_op(twin))
                            mon.disarm()
                            probes["prepared_state_twin_compared"] = probes.get("prepared_state_twin_compared", 0) + 1
                            if o2 != ref[k][v]:
                                violations.append({
                                    "oracle": "C17.O2-history-independence",
                                    "sig": {"kind": op[0], "v": v, "ref": outcome_class(ref[k][v]),
                                            "now": outcome_class(o2)},
                                    "detail": {"op": op, "flag_at_use": v, "what": "a codec state object prepared under "
                                               "the other mode gives a different outcome",
                                               "prepared_under_%s" % bool(op[-1]): ref[k][v][:300],
                                               "prepared_under_%s" % (not op[-1]): o2[:300]}})
                    st, sl = json.loads(ref[k][True]), json.loads(ref[k][False])
                    states.add(h64(op[0], st[0], sl[0], st[1].get("site") if st[0] == "exc" else None,
                                   sl[1].get("site") if sl[0] == "exc" else None))
                    counters[f"{op[0]}_strict_{st[0]}"] = counters.get(f"{op[0]}_strict_{st[0]}", 0) + 1
                    if ref[k][True] != ref[k][False]:
                        differs = True
                        probes["outcome_differs_between_modes"] = probes.get("outcome_differs_between_modes", 0) + 1
                    # O1: lenient mode changes nothing valid
                    if st[0] == "ok" and ref[k][False] != ref[k][True]:
                        strict_site_detail = None
                        shape = result_shape(op, st, sl)
                        sig1 = {"kind": op[0], "entry": op[2] if op[0] == "dec" else None,
                                "lenient": sl[0] if sl[0] == "ok" else sl[1].get("exc"), "shape": shape}
                        if shape == "strict=gnr-fallback,lenient=service-decode":
                            # which downgraded error made the service-level decode succeed in lenient mode?
                            site = strict_failure_site(op, sl, exc_mod)
                            # the file is part of the signature (known findings are keyed by it: robust against
                            # renaming/splitting functions); the full site goes into the detail
                            # the exception class of the strict-mode failure is part of the signature (the known
                            # finding is the family "a DecodeError raised through odxraise / strict text decoding");
                            # the sites go into the detail
                            sig1["strict_exc"] = ",".join(sorted({x.split("@")[0] for x in site.split(",")}))
                            strict_site_detail = site
                        violations.append({
                            "oracle": "C17.O1-lenient-changes-nothing-valid",
                            "sig": sig1,
                            "detail": {"op": op, "strict": ref[k][True][:300], "lenient": ref[k][False][:300],
                                       "strict_site": strict_site_detail}})
                    # O4: an error raised by the strictness mechanism is downgraded
                    if op[0] != "cli" and st[0] == "exc" and st[1]["site"].endswith("[odxraise]") and sl[0] == "exc" and \
                            sl[1]["site"] == st[1]["site"]:
                        violations.append({"oracle": "C17.O4-downgrade", "sig": {"site": st[1]["site"]},
                                           "detail": {"op": op, "strict": st[1], "lenient": sl[1]}})
                    # O4 for the command line: `odxtools --no-strict <tool>` runs the tool in lenient mode, so it
                    # must not end with an error raised by the strictness mechanism
                    if op[0] == "cli" and "--no-strict" in op[1]:
                        for v in (True, False):
                            o_ = json.loads(ref[k][v])
                            if o_[0] == "exc" and str(o_[1].get("site", "")).endswith("[odxraise]"):
                                violations.append({"oracle": "C17.O4-downgrade", "sig": {"site": "cli:" + o_[1]["site"]},
                                                   "detail": {"op": op, "flag_before_the_call": v, "outcome": o_[1]}})
                # phase B: the history, with the controller flipping the flag
                v = bool(trace.get("initial", True))
                exc_mod.strict_mode = v
                by_op: Dict[int, List[List[Any]]] = {}
                for f in trace.get("flips", []):
                    by_op.setdefault(f[0], []).append(f)
                for i, op in enumerate(ops):
                    mid: Dict[int, bool] = {}
                    for f in by_op.get(i, []):
                        if f[1] < 0:
                            exc_mod.strict_mode = bool(f[2])
                            faults["flip_between_operations"] = faults.get("flip_between_operations", 0) + 1
                            log.ev("controller", "flip", {"before_op": i, "to": bool(f[2])})
                        else:
                            mid[f[1]] = bool(f[2])
                    v0 = bool(exc_mod.strict_mode)
                    before = mon.flips_fired
                    mon.arm(mid)
                    o = run_op(op)
                    mon.disarm()
                    fired = mon.flips_fired - before
                    if fired == 0 and bool(exc_mod.strict_mode) != v0:
                        # O5: the switch belongs to the controller; an operation must leave it alone
                        violations.append({
                            "oracle": "C17.O5-operations-leave-the-switch-alone", "sig": {"kind": op[0]},
                            "detail": {"op": op[:3], "flag_before": v0, "flag_after": bool(exc_mod.strict_mode), "index": i}})
                        exc_mod.strict_mode = v0
                    changed = fired > 0 and (bool(exc_mod.strict_mode) != v0 or len(mid) > 1)
                    if op[0] == "cli" and fired > 0:
                        # the command line front end assigns the flag itself (and restores it afterwards): a flip by
                        # the controller while the tool runs changes the mode the tool sees whatever its value
                        changed = True
                    if fired:
                        faults["flip_inside_operation"] = faults.get("flip_inside_operation", 0) + fired
                        log.ev("controller", "flip-inside", {"op": i, "fired": fired})
                    if op[0] in ("load_keep", "refresh_kept"):
                        log.ev("app", "op", {"i": i, "v": v0, "kind": op[0], "outcome": h64(outcome_str(o))})
                        if op[0] == "refresh_kept" and not changed and STATE.get("kept") is not None and fired == 0:
                            # refreshing an object that was loaded earlier (possibly under the other mode) must behave
                            # like loading the same document now, as far as refresh() is concerned
                            probes["refresh_of_kept_database"] = probes.get("refresh_of_kept_database", 0) + 1
                            doc = STATE["kept"][1]
                            keep_obj = STATE["kept"]
                            exc_mod.strict_mode = v0
                            mon.arm({})
                            fresh = run_op(["load", "odx-mut", doc[0], doc[1], doc[2]])
                            mon.disarm()
                            STATE["kept"] = keep_obj
                            exc_mod.strict_mode = v0
                            bad = None
                            if fresh[0] == "ok" and outcome_str(o) != outcome_str(fresh):
                                bad = "fresh load succeeds"
                            elif fresh[0] == "exc" and fresh[1].get("phase") == "refresh" and (
                                    o[0] != "exc" or (o[1].get("exc"), o[1].get("site")) != (fresh[1].get("exc"), fresh[1].get("site"))):
                                bad = "fresh load fails in refresh()"
                            if bad:
                                violations.append({
                                    "oracle": "C17.O2-history-independence",
                                    "sig": {"kind": "refresh", "v": v0, "ref": outcome_class(outcome_str(fresh)),
                                            "now": outcome_class(outcome_str(o))},
                                    "detail": {"op": op, "document": doc, "flag": v0, "what": bad,
                                               "fresh_load": outcome_str(fresh)[:300], "refresh_of_kept": outcome_str(o)[:300]}})
                        continue
                    if not changed:
                        # executed entirely under v0: the outcome must depend on v0 only
                        k = op_key(op)
                        got = outcome_str(o)
                        log.ev("app", "op", {"i": i, "v": v0, "outcome": h64(got)})
                        if got != ref[k][v0]:
                            violations.append({
                                "oracle": "C17.O2-history-independence",
                                "sig": {"kind": op[0], "v": v0, "ref": outcome_class(ref[k][v0]), "now": outcome_class(got)},
                                "detail": {"op": op, "flag": v0, "index": i, "reference": ref[k][v0][:300],
                                           "in_history": got[:300]}})
                    else:
                        log.ev("app", "op-preempted", {"i": i})
                # references are re-taken for a few operations after the history
                for op in order[:4]:
                    k = op_key(op)
                    for v in (True, False):
                        exc_mod.strict_mode = v
                        mon.arm({})
                        o = outcome_str(run_op(op))
                        mon.disarm()
                        if o != ref[k][v]:
                            violations.append({
                                "oracle": "C17.O2-history-independence",
                                "sig": {"kind": op[0], "v": v, "ref": outcome_class(ref[k][v]), "now": outcome_class(o)},
                                "detail": {"op": op, "flag": v, "index": "after-history", "reference": ref[k][v][:300],
                                           "in_history": o[:300]}})
    except HangVerdict:
        violations.append({"oracle": "C17.terminates", "sig": {}, "detail": {}})
    finally:
        mon.disarm()
        exc_mod.strict_mode = True
    # O3: odxraise exits by exception iff the flag is set at the instant of the call
    for v3 in mon.o3:
        violations.append({"oracle": "C17.O3-switch-read-at-call-time", "sig": v3, "detail": v3})
    if mon.odxraise_code is None:
        probes["O3_skipped_no_odxraise"] = 1
    probes["odxraise_reached_in_lenient_mode"] = mon.odxraise_calls[False]
    probes["odxraise_reached_in_strict_mode"] = mon.odxraise_calls[True]
    seen = set()
    uniq = []
    for v in violations:
        key = (v["oracle"], tuple(sorted((k, str(x)) for k, x in v["sig"].items())))
        if key not in seen:
            seen.add(key)
            uniq.append(v)
            log.ev("oracle", "violation", {"oracle": v["oracle"], "sig": v["sig"]})
    n_fl = faults.get("flip_between_operations", 0) + faults.get("flip_inside_operation", 0)
    return {
        "digest": log.digest(),
        "events": log.events,
        "counters": counters,
        "faults": faults,
        "probes": probes,
        "states": states,
        "sched_sig": h64("flips", tuple((f[0], f[1], f[2]) for f in trace.get("flips", []))),
        "sim_time": 0.0,
        "violations": uniq,
        "nontrivial": differs and n_fl > 0,
        "cross": cross,
        "sample": {"ops": [o if o[0] != "enc" else o[:4] for o in ops[:10]], "flips": trace.get("flips", [])[:10],
                   "n_ops": len(ops)},
    }


# ------------------------------------------------------------------ cross-interpreter oracle (parent side)
def cross_check(total: Dict[str, Any]) -> List[Dict[str, Any]]:
    """Outcome of (operation, flag value) must not depend on the import-time flag value:
    compare sibling pools (same backend, opposite import-time flag)."""
    out: List[Dict[str, Any]] = []
    cross = total.get("cross", {})
    n_cmp = 0
    for a, b in ((0, 1), (2, 3)):
        ca, cb = cross.get(a, {}), cross.get(b, {})
        seen_kinds = set()
        for key in sorted(set(ca) & set(cb)):
            n_cmp += 1
            (oa, ia), (ob, ib) = ca[key], cb[key]
            if oa != ob:
                # the violation is replayed in pool a against the sibling's outcome
                out.append({"oracle": "C17.O2-import-time-independence", "sig": {"pair": f"{a}-{b}"},
                            "detail": {"key": key, "index_a": ia, "index_b": ib},
                            "run_seed": 0, "index": ia, "pool": a,
                            "trace": {"kind": "cross-unresolved", "key": key, "index": ia,
                                      "sibling_outcome": ob}})
                if len(out) > 40:
                    break
    total.setdefault("counters", {})["cross_interpreter_comparisons"] = n_cmp
    return out


def resolve_cross(trace: Dict[str, Any], tier: str) -> Optional[Dict[str, Any]]:
    """Turn a parent-side cross violation (key + run index) into a concrete trace."""
    batch_seed = worker._STATE.get("batch_seed", 0)
    idx = trace["index"]
    t = gen(run_seed("C17", batch_seed, idx), idx, tier)
    env = t.get("env")
    envtag = json.dumps(env, sort_keys=True) if env else ""
    for op in t["ops"]:
        for v in (True, False):
            if h64(op_key(op), v, envtag) == trace["key"]:
                out = {"kind": "cross", "ops": [op], "v": v, "sibling_outcome": trace["sibling_outcome"],
                       "flips": []}
                if env:
                    out["env"] = env
                return out
    return None


# ------------------------------------------------------------------ minimisation
def trace_size(trace: Dict[str, Any]) -> int:
    return len(trace["ops"]) + len(trace.get("flips", []))


def shrink(trace: Dict[str, Any], still_fails) -> Dict[str, Any]:
    if trace["kind"] != "run":
        return trace
    budget = ShrinkBudget(300)
    cur = trace
    if cur.get("env"):
        plain = {k: v for k, v in cur.items() if k != "env"}
        budget.tests += 1
        if still_fails(plain):
            cur = plain
    cand = {**cur, "flips": []}
    budget.tests += 1
    if still_fails(cand):
        cur = cand
    # drop operations (flip indices are remapped)
    idx = list(range(len(cur["ops"])))

    def build(keep: List[int]) -> Dict[str, Any]:
        remap = {old: new for new, old in enumerate(keep)}
        return {**cur, "ops": [cur["ops"][i] for i in keep],
                "flips": [[remap[f[0]], f[1], f[2]] for f in cur["flips"] if f[0] in remap]}

    keep = ddmin_list(idx, lambda k: still_fails(build(k)), budget, min_len=1)
    cur = build(keep)
    if cur["flips"]:
        fl = ddmin_list(cur["flips"], lambda f: still_fails({**cur, "flips": f}), budget)
        cur = {**cur, "flips": fl}
    return cur
