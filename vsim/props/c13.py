"""C13 - malformed or lossy CAN traffic never crashes or fabricates telegrams.

Same world as C12 with the fault injector on.  Per base stream every single fault at
every position is walked systematically, then seeded double faults, then random
multi-fault sequences and fully random frame sequences.  Oracle clauses:
 (a) processing a frame never raises;
 (b) every report is the payload of the single frame just received or the
     announced-length prefix of the latest first frame + in-sequence consecutive frames;
 (c) at most one telegram per first frame;
 (d) after the last fault the next well-formed transfer on each ID is reassembled
     correctly (bounded liveness once faults stop).
"""
from typing import Any, Dict, List, Optional, Tuple

from ..can import world as W
from ..core import worker
from ..core.evlog import EventLog, exc_sig
from ..core.seeds import Streams, h64, weighted
from ..core.shrink import ShrinkBudget, ddmin_list, shrink_each
from . import c12

META: Dict[str, Any] = {
    "id": "C13",
    "level": "fault_enumeration",
    "pools": [{"backend": "c"}, {"backend": "py"}, {"backend": "c", "optimize": 1}],
    "tiers": {
        "quick": {"runs": 120000, "chunk": 400, "wall": 200, "chunk_wall": 240},
        "thorough": {"runs": 3000000, "chunk": 500, "wall": 900, "chunk_wall": 600},
    },
    "selftest_runs": 6,
    "rule": ("one run = one well-formed base stream (1-3 monitored IDs, <=24 frames in the "
             "systematic part) with a fault sequence applied, or a fully random frame sequence, "
             "followed by one fresh well-formed transfer per monitored ID; delivered to 2-3 entry "
             "points. Systematic part: per base stream every fault kind at every position "
             "(512 slots: single faults, then seeded double faults). Non-trivial: at least one "
             "fault landed inside an in-flight multi-frame transfer of a monitored ID. "
             "Distinct = distinct event-log digest."),
    "state_measure": ("(fault kind, frame kind hit, receiver in transfer?, expected SN) tuples at the "
                      "instant a fault fires"),
    "sim_time_note": "frame timestamps (0.5 ms per frame); odxtools has no timers",
    "components": c12.META["components"],
    "assumptions": c12.META["assumptions"] + [
        "empty frames are rendered into the text logs the way candump prints them ('can0  7E0   [0]', '7E0#'); "
        "the reader does not recognise such lines and skips them with a warning",
    ],
}

FAULT_KINDS = ["drop", "dup", "swap", "delay", "trunc", "pci_type", "pci_low", "byte1", "payload",
               "stray_cf", "stray_fc", "empty", "random", "sender_crash", "restart"]
SLOTS = 512
MAX_SYS_FRAMES = 24


def pool_of(rs: int, index: int) -> int:
    return h64("pool", rs) % 3


def worker_init() -> None:
    W.preload_snoop_layer()


# ------------------------------------------------------------------ generation
def base_stream(S: Streams, label: str, max_frames: int) -> Dict[str, Any]:
    """A well-formed interleaved stream with at least one multi-frame transfer."""
    r = S.rng(label)
    ids = list(c12.ID_POOL)
    r.shuffle(ids)
    n_mon = weighted(r, [1, 2, 3], [5, 4, 1])
    monitored = ids[:n_mon]
    tx_ids = ids[n_mon:2 * n_mon]
    queues: List[List[List[Any]]] = []
    budget = max_frames
    ctr = 0
    for mi in range(n_mon):
        tx_dl = weighted(r, [8, 12, 24, 64], [12, 1, 1, 2])
        pad_mode = r.choice(["none", "dlc", "full"])
        pad_byte = r.choice([0x00, 0xAA, 0xCC, 0x55])
        q: List[List[Any]] = []
        n_tel = r.randint(1, 3)
        for t in range(n_tel):
            a = tx_dl - 2
            b = tx_dl - 1
            if t == 0 and mi == 0:
                n = r.choice([a + 1, a + b, a + b + 1, a + 2 * b, a + 3 * b + 1, a + 16 * b + 2])
            else:
                n = r.choice([1, 3, 7, a, a + 1, a + b + 1, a + 2 * b])
            n = max(1, min(n, 4095))
            segs = W.segment(c12.gen_payload(r, n, ctr), tx_dl, pad_mode, pad_byte)
            ctr += 1
            per_id_budget = budget // (n_mon - mi)
            if len(q) + len(segs) > per_id_budget and q:
                break
            if len(segs) > per_id_budget:
                n = a + max(1, per_id_budget - 2) * b
                segs = W.segment(c12.gen_payload(r, n, ctr), tx_dl, pad_mode, pad_byte)
            for f, k in segs:
                q.append([monitored[mi], f.hex(), k, t])
        budget -= len(q)
        queues.append(q)
    pos = [0] * len(queues)
    frames: List[List[Any]] = []
    while True:
        live = [i for i in range(len(queues)) if pos[i] < len(queues[i])]
        if not live:
            break
        node = r.choice(live)
        frames.append(queues[node][pos[node]])
        pos[node] += 1
    return {"monitored": monitored, "tx_ids": tx_ids, "frames": frames}


def long_stream(S: Streams, label: str) -> Dict[str, Any]:
    """One long transfer (several flow-control blocks, sequence counter wrapping many times), optionally
    with a short transfer on a second ID in between."""
    r = S.rng(label)
    ids = list(c12.ID_POOL)
    r.shuffle(ids)
    n_mon = r.choice([1, 1, 2])
    monitored, tx_ids = ids[:n_mon], ids[n_mon:2 * n_mon]
    tx_dl = weighted(r, [8, 12, 64], [8, 1, 1])
    b = tx_dl - 1
    n = r.choice([1791, 1792, 1793, 1799, 2048, 4095, 4094, (tx_dl - 2) + 255 * b, (tx_dl - 2) + 256 * b,
                  (tx_dl - 2) + 257 * b, (tx_dl - 2) + 511 * b + 1])
    n = max(1, min(n, 4095))
    pad_mode = r.choice(["none", "dlc", "full"])
    main = [[monitored[0], f.hex(), k, 0] for f, k in W.segment(c12.gen_payload(r, n, 0), tx_dl, pad_mode, 0xCC)]
    side: List[List[Any]] = []
    if n_mon > 1:
        for t in range(r.randint(1, 3)):
            m = r.choice([3, 7, 8, 20])
            side += [[monitored[1], f.hex(), k, t] for f, k in W.segment(c12.gen_payload(r, m, 1 + t), 8, "none")]
    frames = list(main)
    for fr in side:
        frames.insert(r.randint(0, len(frames)), fr)
    # per-ID order of the side stream must be kept: re-sort its frames into the chosen slots
    slots = [i for i, f in enumerate(frames) if f[0] == (monitored[1] if n_mon > 1 else None)]
    for i, fr in zip(slots, side):
        frames[i] = fr
    return {"monitored": monitored, "tx_ids": tx_ids, "frames": frames}


def same_id_next(frames: List[List[Any]], k: int, dist: int = 1) -> Optional[int]:
    fid = frames[k][0]
    j = k
    for _ in range(dist):
        nxt = None
        for jj in range(j + 1, len(frames)):
            if frames[jj][0] == fid:
                nxt = jj
                break
        if nxt is None:
            break
        j = nxt
    return j if j != k else None


def apply_fault(frames: List[List[Any]], kind: str, k: int, r, monitored: List[int]) -> Tuple[List[List[Any]], Optional[Dict[str, Any]]]:
    """Apply one fault at position k of the delivered list. Returns the new list and a
    description of what fired (None if it could not fire)."""
    if not frames:
        return frames, None
    k = min(k, len(frames) - 1)
    f = list(frames[k])
    if f[2] == "restart":
        return frames, None
    data = bytes.fromhex(f[1])
    out = [list(x) for x in frames]
    info: Dict[str, Any] = {"kind": kind, "at": k, "hit": f[2], "id": f[0]}

    def mark(fr: List[Any], tag: str) -> List[Any]:
        fr = list(fr)
        while len(fr) < 5:
            fr.append("n")
        if len(fr) < 6:
            fr.append(tag)
        else:
            fr[5] = fr[5] + "+" + tag
        return fr

    if kind == "drop":
        del out[k]
    elif kind == "dup":
        out.insert(k + 1, mark(f, "dup"))
    elif kind == "swap":
        j = same_id_next(out, k)
        if j is None:
            return frames, None
        out[k], out[j] = mark(out[j], "swap"), mark(out[k], "swap")
    elif kind == "delay":
        j = same_id_next(out, k, r.randint(2, 5))
        if j is None:
            return frames, None
        fr = out.pop(k)
        out.insert(j, mark(fr, "delay"))
    elif kind == "trunc":
        if len(data) == 0:
            return frames, None
        n = r.choice([0, 1, 1, 2, max(0, len(data) - 1), r.randint(0, len(data) - 1)])
        n = min(n, len(data) - 1)
        f[1] = data[:n].hex()
        info["to"] = n
        out[k] = mark(f, "trunc")
    elif kind == "pci_type":
        if not data:
            return frames, None
        t = r.choice([x for x in range(16) if x != data[0] >> 4][:6] + [r.randint(4, 15)])
        f[1] = (bytes([(t << 4) | (data[0] & 0xF)]) + data[1:]).hex()
        info["to"] = t
        out[k] = mark(f, "pci_type")
    elif kind == "pci_low":
        if not data:
            return frames, None
        lo = r.choice([x for x in range(16) if x != data[0] & 0xF])
        f[1] = (bytes([(data[0] & 0xF0) | lo]) + data[1:]).hex()
        info["to"] = lo
        out[k] = mark(f, "pci_low")
    elif kind == "byte1":
        if len(data) < 2:
            return frames, None
        v = r.choice([0, 1, 5, 6, 7, 0xFF, data[1] ^ 1, data[1] ^ 0x80, r.getrandbits(8)])
        f[1] = (data[:1] + bytes([v & 0xFF]) + data[2:]).hex()
        out[k] = mark(f, "byte1")
    elif kind == "payload":
        if len(data) < 3:
            return frames, None
        p = r.randint(2, len(data) - 1)
        f[1] = (data[:p] + bytes([data[p] ^ r.choice([1, 0x80, 0xFF])]) + data[p + 1:]).hex()
        out[k] = mark(f, "payload")
    elif kind == "stray_cf":
        sn = r.randint(0, 15)
        ln = r.choice([1, 2, 8, 8, 8, 64])
        d = bytes([0x20 | sn]) + bytes(r.getrandbits(8) for _ in range(ln - 1))
        out.insert(k, [f[0], d.hex(), "stray", -1, "n", "stray_cf"])
        info["sn"] = sn
    elif kind == "stray_fc":
        d = W.flow_control(r.choice([0, 1, 2, 7]), r.getrandbits(8), r.getrandbits(8), r.choice([0, 8]))
        if r.random() < 0.2:
            d = d[:r.randint(1, 2)]
        out.insert(k, [f[0], d.hex(), "stray", -1, "n", "stray_fc"])
    elif kind == "empty":
        out.insert(k, [f[0], "", "stray", -1, "n", "empty"])
    elif kind == "random":
        ln = r.choice([1, 2, 3, 7, 8, 8, 12, 64])
        d = bytes(r.getrandbits(8) for _ in range(ln))
        if r.random() < 0.6:
            d = bytes([r.choice([0x00, 0x05, 0x0F, 0x10, 0x1F, 0x21, 0x2F, 0x30, 0x40, 0xF0])]) + d[1:]
        out.insert(k, [r.choice(monitored), d.hex(), "stray", -1, "n", "random"])
    elif kind == "sender_crash":
        if f[2] not in ("ff", "cf"):
            return frames, None
        fid, tel = f[0], f[3]
        if f[2] == "ff":
            k2 = k + 1
        else:
            k2 = k
        before = len(out)
        out = [x for j, x in enumerate(out) if not (j >= k2 and x[0] == fid and x[3] == tel and x[2] == "cf")]
        if len(out) == before:
            return frames, None
    elif kind == "restart":
        out.insert(k, [None, "", "restart", -1, "n", "restart"])
    else:
        raise ValueError(kind)
    return out, info


def recovery_frames(S: Streams, monitored: List[int], interleave: bool) -> Tuple[List[List[Any]], Dict[str, str]]:
    r = S.rng("recovery")
    queues = []
    rec: Dict[str, str] = {}
    for mi, mid in enumerate(monitored):
        tx_dl = weighted(r, [8, 16, 64], [8, 1, 1])
        a, b = tx_dl - 2, tx_dl - 1
        n = r.choice([1, 4, 7, a, a + 1, a + b, a + b + 3, a + 2 * b + 1])
        p = c12.gen_payload(r, n, 0xE00 + mi)
        p = bytes([0xEE]) + p[1:] if len(p) > 2 else p
        rec[str(mid)] = p.hex()
        queues.append([[mid, f.hex(), k, -2, "n", "rec"] for f, k in W.segment(p, tx_dl, r.choice(["none", "dlc"]), 0x55)])
    frames: List[List[Any]] = []
    if interleave:
        pos = [0] * len(queues)
        while True:
            live = [i for i in range(len(queues)) if pos[i] < len(queues[i])]
            if not live:
                break
            node = r.choice(live)
            frames.append(queues[node][pos[node]])
            pos[node] += 1
    else:
        for q in queues:
            frames.extend(q)
    return frames, rec


def gen(rs: int, index: int, tier: str) -> Dict[str, Any]:
    c12.UDS_MODE[0] = Streams(rs).rng("uds").random() < 0.3
    try:
        return gen_(rs, index, tier)
    finally:
        c12.UDS_MODE[0] = False


def gen_(rs: int, index: int, tier: str) -> Dict[str, Any]:
    S = Streams(rs)
    r = S.rng("cfg")
    batch_seed = worker._STATE.get("batch_seed", 0)
    n_sys = 30 * SLOTS if tier == "quick" else 1500 * SLOTS
    mode = "random"
    faults_applied: List[Dict[str, Any]] = []
    if index < n_sys:
        # systematic: every fault kind at every position of one base stream
        base_id, slot = divmod(index, SLOTS)
        SB = Streams(h64("C13base", batch_seed, base_id))
        base = base_stream(SB, "base", MAX_SYS_FRAMES)
        frames = [f + ["n"] for f in base["frames"]]
        nk = len(FAULT_KINDS)
        npos = len(frames)
        rf = S.rng("fault")
        if slot < nk * MAX_SYS_FRAMES:
            ki, pos = divmod(slot, MAX_SYS_FRAMES)
            mode = "single"
            if pos < npos:
                frames, info = apply_fault(frames, FAULT_KINDS[ki], pos, rf, base["monitored"])
                if info:
                    faults_applied.append(info)
        else:
            mode = "double"
            for _ in range(2):
                kind = rf.choice(FAULT_KINDS)
                pos = rf.randint(0, max(0, len(frames) - 1))
                frames, info = apply_fault(frames, kind, pos, rf, base["monitored"])
                if info:
                    faults_applied.append(info)
        monitored, tx_ids = base["monitored"], base["tx_ids"]
    else:
        if S.rng("mode").random() < 0.12:
            return c12.gen_closed(S, with_faults=True)
        sub = r.random()
        if sub < 0.7:
            mode = "multi"
            if sub < 0.025:
                mode = "long"
                base = long_stream(S, "long")
            else:
                base = base_stream(S, "base", r.choice([12, 24, 60, 150]))
            frames = [f + ["n"] for f in base["frames"]]
            monitored, tx_ids = base["monitored"], base["tx_ids"]
            rf = S.rng("fault")
            enabled = [k for k in FAULT_KINDS if rf.random() < 0.5] or [rf.choice(FAULT_KINDS)]
            rate = rf.choice([0.02, 0.05, 0.1, 0.25])
            n_f = max(1, int(len(frames) * rate))
            if mode == "long":
                n_f = rf.choice([0, 0, 1, 2, 5])
            for _ in range(n_f):
                kind = rf.choice(enabled)
                pos = rf.randint(0, max(0, len(frames) - 1))
                frames, info = apply_fault(frames, kind, pos, rf, monitored)
                if info:
                    faults_applied.append(info)
        else:
            mode = "randomseq"
            ids = list(c12.ID_POOL)
            r.shuffle(ids)
            n_mon = r.randint(1, 3)
            monitored, tx_ids = ids[:n_mon], ids[n_mon:2 * n_mon]
            rr = S.rng("randomseq")
            frames = []
            for _ in range(rr.randint(1, 60)):
                ln = rr.choice([0, 1, 2, 3, 7, 8, 8, 8, 8, 9, 12, 64, rr.randint(0, 64)])
                d = bytearray(rr.getrandbits(8) for _ in range(ln))
                if ln and rr.random() < 0.85:
                    t = weighted(rr, [0, 1, 2, 3, rr.randint(4, 15)], [3, 3, 6, 1, 1])
                    d[0] = (t << 4) | (d[0] & 0xF)
                    if t == 1 and ln >= 2 and rr.random() < 0.8:
                        d[0] = 0x10
                        d[1] = rr.choice([0, 1, 6, 7, 8, 13, 14, 20, 27, 30])
                    if t == 2 and rr.random() < 0.6:
                        d[0] = 0x20 | rr.choice([1, 2, 3, 4])
                fid = rr.choice(monitored + [ids[-1]])
                frames.append([fid, bytes(d).hex(), "rnd", -1, "n", "rnd"])
                faults_applied.append({"kind": "randomseq", "at": len(frames) - 1, "hit": "rnd", "id": fid})
            if rr.random() < 0.15:
                frames.insert(rr.randint(0, len(frames)), [None, "", "restart", -1, "n", "restart"])
    rec_frames, rec = recovery_frames(S, monitored, r.random() < 0.5)
    # text formats per frame
    rt = S.rng("text")
    tmode = rt.choice(["n", "l", "mixed"])
    allf = []
    for f in frames + rec_frames:
        f = list(f)
        while len(f) < 6:
            f.append("n" if len(f) == 4 else "")
        f[4] = c12.pick_fmt(rt, tmode, len(f[1]) // 2)
        allf.append(f)
    re_ = S.rng("entries")
    entries = [{"ep": "direct", "kind": re_.choice(["passive", "passive", "active", "vpassive", "vactive"]),
                "dt": re_.choice(["bytes", "bytearray", "message", "reused"]),
                "consume": re_.choice(["all", "all", "first"])}]
    extra = re_.choice(["text", "bus", "both", "none"])
    if extra in ("text", "both"):
        entries.append({"ep": "text", "kind": re_.choice(["passive", "vpassive", "active"]),
                        "portions": re_.choice([1, 1, 2, 3])})
    if extra in ("bus", "both"):
        entries.append({"ep": "bus", "kind": re_.choice(["passive", "active", "vactive"])})
    if len(monitored) == 2 and re_.random() < 0.5:
        entries.append({"ep": "snoop", "kind": "passive", "nostrict": re_.random() < 0.5})
    return {
        "kind": "open",
        "mode": mode,
        "monitored": monitored,
        "tx_ids": tx_ids,
        "frames": allf,
        "recovery": rec,
        "faults": faults_applied,
        "entries": entries,
        "padding": re_.choice([0, 8]),
        "probe_send_failures": (re_.choice([1, 2, 3]) if re_.random() < 0.05 else 0),
        "text": {"style": rt.randint(0, 31), "crlf": rt.random() < 0.2, "last_newline": rt.random() < 0.8,
                 # lines that are not frames of a monitored ID (comments, blank and cut-short lines): [before frame k, text]
                 "noise": [[rt.randint(0, max(0, len(allf))), rt.choice(c12.TEXT_NOISE)]
                           for _ in range(rt.choice([0, 0, 1, 2, 4]))]},
    }


# ------------------------------------------------------------------ oracle
def dp_accepts(hist: List[bytes], p: bytes) -> bool:
    """hist[0] is the latest first frame on the ID; hist[1:] the frames delivered on that ID
    after it, the last one being the frame being processed."""
    ff = hist[0]
    if len(ff) < 2:
        return False
    cands = [((ff[0] & 0xF) << 8 | ff[1], ff[2:])]
    if cands[0][0] == 0 and len(ff) >= 6:
        cands.append((int.from_bytes(ff[2:6], "big"), ff[6:]))
    for L, head in cands:
        if len(p) != L:
            continue
        m0 = min(len(head), L)
        if p[:m0] != head[:m0]:
            continue
        if len(hist) == 1:
            if m0 >= L:
                return True
            continue
        states = {(0, m0)}
        last = len(hist) - 1
        for j in range(1, len(hist)):
            fr = hist[j]
            new_states = set()
            is_cf = len(fr) >= 1 and fr[0] >> 4 == 2
            for (k, m) in states:
                if j != last:
                    new_states.add((k, m))  # skipping is allowed, except for the last frame
                if is_cf and (fr[0] & 0xF) == (k + 1) % 16:
                    chunk = fr[1:][:L - m]
                    if p[m:m + len(chunk)] == chunk:
                        new_states.add((k + 1, m + len(chunk)))
            if j == last:
                if any(m >= L for (k, m) in new_states):
                    return True
                states = set()
            else:
                states = new_states
            if not states:
                break
    return False


def ftype(d: bytes) -> str:
    if len(d) == 0:
        return "empty"
    t = d[0] >> 4
    if t == 1 and len(d) < 2:
        return "short-ff"  # cannot announce a length: not a first frame for the oracle
    return {0: "sf", 1: "ff", 2: "cf", 3: "fc"}.get(t, "invalid")


def judge(frames: List[Tuple[int, bytes]], segs: List[int], res: W.EntryResult,
          monitored: List[int], rec_ranges: Dict[int, Tuple[List[int], bytes]], ename: str
          ) -> List[Dict[str, Any]]:
    """frames: what this entry point was given; segs: indices at which the node restarted."""
    viols: List[Dict[str, Any]] = []
    if res.raised is not None:
        k, e = res.raised
        sig = exc_sig(e)
        d = frames[k][1] if k < len(frames) else b""
        viols.append({"oracle": "C13.a-never-raises", "sig": {**sig, "ftype": ftype(d), "entry": ename},
                      "detail": {"frame_index": k, "frame": d.hex()[:40], "id": frames[k][0] if k < len(frames) else None,
                                 "msg": str(e)[:200], "entry": res.name}})
    by_frame: Dict[int, List[Tuple[int, bytes]]] = {}
    for k, rid, p in res.reports:
        by_frame.setdefault(k, []).append((rid, p))
    hist: Dict[int, List[bytes]] = {}
    mf_reports: Dict[int, int] = {}
    last_k = res.raised[0] if res.raised is not None else len(frames)
    for k, (fid, d) in enumerate(frames):
        if k > last_k:
            break
        if k in segs:
            hist.clear()
            mf_reports.clear()
        t = ftype(d)
        if t == "ff":
            hist[fid] = [d]
            mf_reports[fid] = 0
        elif fid in hist:
            hist[fid].append(d)
        for rid, p in by_frame.get(k, []):
            if rid != fid or fid not in monitored:
                viols.append({"oracle": "C13.b-nothing-fabricated", "sig": {"what": "report-for-other-id", "entry": ename},
                              "detail": {"frame_index": k, "frame_id": fid, "report_id": rid}})
                continue
            ok = False
            if t == "sf":
                n = d[0] & 0xF
                ok = p == d[1:1 + n]
                if not ok and n == 0 and len(d) > 8:
                    # the length escape (length in the second byte) exists for CAN FD frames only; a classic frame
                    # with a zero length nibble carries no payload (ISO 15765-2 9.6.2) - seeded change C13-O
                    ok = p == d[2:2 + d[1]]
            elif t in ("ff", "cf") and fid in hist:
                ok = dp_accepts(hist[fid], p)
                if ok:
                    mf_reports[fid] = mf_reports.get(fid, 0) + 1
                    if mf_reports[fid] > 1:
                        viols.append({"oracle": "C13.c-one-telegram-per-first-frame",
                                      "sig": {"what": "second-report", "entry": ename},
                                      "detail": {"frame_index": k, "id": fid, "payload": p.hex()[:60]}})
            if not ok:
                dupl = any(pp == p for kk, rr, pp in res.reports if kk < k and rr == rid)
                viols.append({"oracle": "C13.b-nothing-fabricated",
                              "sig": {"what": "re-reported" if dupl else "fabricated", "ftype": t, "entry": ename},
                              "detail": {"frame_index": k, "id": fid, "frame": d.hex()[:40], "payload": p.hex()[:60],
                                         "payload_len": len(p), "entry": res.name}})
    # (d) recovery
    if res.raised is None:
        for mid, (idxs, payload) in rec_ranges.items():
            got = [p for k, rid, p in res.reports if k in idxs and rid == mid]
            if got != [payload]:
                what = "missing" if not got else ("extra" if payload in got else "wrong")
                viols.append({"oracle": "C13.d-recovery", "sig": {"what": what, "entry": ename},
                              "detail": {"id": mid, "expected": payload.hex()[:60], "got": [g.hex()[:60] for g in got][:4],
                                         "entry": res.name}})
    return viols


def split_frames(trace: Dict[str, Any], skip_empty: bool) -> Tuple[List[Tuple[int, bytes]], List[int], List[List[Any]]]:
    frames: List[Tuple[int, bytes]] = []
    metas: List[List[Any]] = []
    segs: List[int] = []
    for f in trace["frames"]:
        if f[2] == "restart":
            segs.append(len(frames))
            continue
        if f[2] == "tn":
            continue
        d = bytes.fromhex(f[1])
        if skip_empty and len(d) == 0:
            continue
        frames.append((f[0], d))
        metas.append(f)
    return frames, segs, metas


def run_text_segments(trace: Dict[str, Any], ent: Dict[str, Any], frames: List[Tuple[int, bytes]],
                      metas: List[List[Any]], segs: List[int]) -> W.EntryResult:
    """Text entry point; a restart is a new reader session on the remaining lines."""
    bounds = [0] + [s for s in segs if 0 < s < len(frames)] + [len(frames)]
    total = W.EntryResult(f"text-{ent['kind']}" if ent["ep"] == "text" else "snoop-passive")
    tcfg = trace.get("text", {})
    eol = "\r\n" if tcfg.get("crlf") else "\n"
    for a, b in zip(bounds, bounds[1:]):
        lines = []
        noise = sorted((n for n in tcfg.get("noise", []) if a <= n[0] < b or (b == len(frames) and n[0] >= b)),
                       key=lambda n: n[0])
        for k in range(a, b):
            t = 1700000000.0 + 0.0005 * k
            for n in noise:
                if n[0] == k:
                    lines.append((n[1] + eol, None))
            lines.append((W.render_line(frames[k][0], frames[k][1], metas[k][4], t, tcfg.get("style", 0)) + eol, k))
        if b == len(frames):
            for n in noise:
                if n[0] >= b:
                    lines.append((n[1] + eol, None))
        if b == len(frames) and lines and not tcfg.get("last_newline", True):
            lines[-1] = (lines[-1][0].rstrip("\r\n"), lines[-1][1])
        if ent["ep"] == "snoop" and len(trace["monitored"]) == 2:
            # the whole tool pipeline (odxtools snoop reading the capture from stdin)
            res = W.feed_snoop(lines, trace["monitored"], strict=not ent.get("nostrict"))
        else:
            res = W.feed_text(lines, ent["kind"] if ent["ep"] == "text" else "vpassive", trace["monitored"],
                              trace["tx_ids"], trace.get("padding", 0), portions=int(ent.get("portions", 1)))
        total.reports += res.reports
        total.sent += res.sent
        total.fed += res.fed
        if res.raised is not None:
            total.raised = res.raised
            break
    return total


def run_bus_segments(trace: Dict[str, Any], ent: Dict[str, Any], frames: List[Tuple[int, bytes]],
                     segs: List[int], clock: W.SimClock) -> W.EntryResult:
    bounds = [0] + [s for s in segs if 0 < s < len(frames)] + [len(frames)]
    total = W.EntryResult(f"bus-{ent['kind']}")
    for a, b in zip(bounds, bounds[1:]):
        res = W.feed_bus(frames[a:b], ent["kind"], trace["monitored"], trace["tx_ids"], clock,
                         trace.get("padding", 0))
        total.reports += [(k + a, rid, p) for k, rid, p in res.reports]
        total.sent += [(k + a, i, d) for k, i, d in res.sent]
        total.fed += res.fed
        if res.raised is not None:
            total.raised = (res.raised[0] + a, res.raised[1])
            break
    return total


def execute_closed(trace: Dict[str, Any]) -> Dict[str, Any]:
    """Closed-loop run with bus faults: real can-isotp stacks react to loss/duplication with
    timeouts and aborts; the odxtools node is judged on what was actually delivered."""
    from ..can import closedloop as CL
    log = EventLog()
    clock = W.SimClock()
    cfg = trace["cfg"]
    res = CL.run_closed_loop(cfg, trace["telegrams"], trace["sched_seed"], trace.get("faults", []), clock,
                             max_steps=120000)
    log.ev("sim", "closed-config", cfg)
    log.ev("bus", "delivered", [(f, d, s) for f, d, s in res.delivered], clock.now)
    log.ev("nut", "reports", [(k, i, p) for k, i, p in res.reports])
    if not res.completed and res.raised is None:
        raise RuntimeError("closed-loop simulation did not finish within its step cap")
    monitored = list(trace["monitored"])
    frames = [(f, d) for f, d, s in res.delivered]
    er = W.EntryResult("closed-" + cfg["kind"])
    er.reports = list(res.reports)
    er.raised = res.raised
    violations = judge(frames, [], er, monitored, {}, "closed")
    # (d) recovery: the telegram sent after the last fault arrives exactly once, as the last report
    if res.raised is None:
        for direction, mid in (("req", cfg["rx_id"]), ("rsp", cfg["tx_id"])):
            fin = [bytes.fromhex(t[1]) for t in trace["telegrams"] if t[0] == direction and len(t) > 2 and t[2] == "final"]
            if not fin or mid not in monitored:
                continue
            got = [p for _, rid, p in res.reports if rid == mid]
            n = sum(1 for p in got if p == fin[0])
            if n != 1 or got[-1] != fin[0]:
                violations.append({"oracle": "C13.d-recovery", "sig": {"what": "missing" if n == 0 else "extra", "entry": "closed"},
                                   "detail": {"id": mid, "expected": fin[0].hex()[:60], "times_reported": n,
                                              "stack_errors": res.stack_errors[:4]}})
    seen = set()
    uniq = []
    for v in violations:
        key = (v["oracle"], tuple(sorted(v["sig"].items())))
        if key not in seen:
            seen.add(key)
            uniq.append(v)
            log.ev("oracle", "violation", {"oracle": v["oracle"], "sig": v["sig"]})
    faults = {("bus_" + k): n for k, n in res.faults_fired.items()}
    errs = {e[1] for e in res.stack_errors}
    probes = {"closed_loop_run": 1}
    for e in sorted(errs):
        probes["real_stack_" + e] = 1
    return {
        "digest": log.digest(), "events": log.events, "counters": {"frames_fed": len(frames), "reports": len(res.reports),
                                                                    "mode_closed": 1},
        "faults": faults, "probes": probes, "states": {h64("closed", tuple(sorted(errs)), cfg["mode"])},
        "sched_sig": h64("closed", tuple(s for _, _, s in res.delivered)), "sim_time": clock.now,
        "violations": uniq, "nontrivial": bool(res.faults_fired) and bool(errs - {"UnexpectedFlowControlError"}),
        "sample": {"closed_loop": cfg, "faults": trace.get("faults"), "stack_errors": res.stack_errors[:6],
                   "delivered": [[f, d.hex()[:24], s] for f, d, s in res.delivered[:24]]},
    }


def execute(trace: Dict[str, Any]) -> Dict[str, Any]:
    if trace.get("kind") == "closed":
        return execute_closed(trace)
    log = EventLog()
    clock = W.SimClock()
    monitored = list(trace["monitored"])
    tx_ids = list(trace["tx_ids"])
    rec = {int(k): bytes.fromhex(v) for k, v in trace.get("recovery", {}).items()}
    counters: Dict[str, int] = {}
    faults: Dict[str, int] = {}
    probes: Dict[str, int] = {}
    states = set()
    violations: List[Dict[str, Any]] = []
    log.ev("sim", "config", {"monitored": monitored, "mode": trace.get("mode"), "n": len(trace["frames"])})

    # which faults fired, and did they land inside an in-flight transfer (model walk)
    nontrivial = False
    in_tr: Dict[int, int] = {}
    for f in trace["frames"]:
        tag = f[5] if len(f) > 5 else ""
        fid = f[0]
        d = bytes.fromhex(f[1]) if f[2] != "restart" else b""
        if tag and tag not in ("rec",):
            for tg in tag.split("+"):
                faults[tg] = faults.get(tg, 0) + 1
                inflight = (fid in in_tr) if fid is not None else bool(in_tr)
                if inflight:
                    faults[tg + "@in-transfer"] = faults.get(tg + "@in-transfer", 0) + 1
                    nontrivial = True
                states.add(h64("fs", tg, f[2], inflight, in_tr.get(fid, -1) if fid is not None else -1))
        if f[2] == "restart":
            if in_tr:
                probes["restart_mid_transfer"] = probes.get("restart_mid_transfer", 0) + 1
            continue
        t = ftype(d)
        if t == "ff" and fid in monitored:
            in_tr[fid] = 1
        elif t == "cf" and fid in in_tr:
            in_tr[fid] = (in_tr[fid] + 1) % 16
        elif t == "sf" and fid in in_tr:
            probes["sf_during_transfer"] = probes.get("sf_during_transfer", 0) + 1
    for fl in trace.get("faults", []):
        k = fl["kind"]
        if k in ("drop", "sender_crash"):
            faults[k] = faults.get(k, 0) + 1
            if fl.get("hit") in ("cf", "ff"):
                faults[k + "@in-transfer"] = faults.get(k + "@in-transfer", 0) + 1
                nontrivial = True
            states.add(h64("fs", k, fl.get("hit")))
    counters["mode_" + str(trace.get("mode"))] = 1

    for ei, ent in enumerate(trace["entries"]):
        # candump does print empty frames ("can0  7E0   [0]" / "7E0#"); the reader does not recognise
        # such lines and skips them with a warning, which is as good as ignoring the frame
        skip_empty = False
        frames, segs, metas = split_frames(trace, skip_empty)
        rec_ranges: Dict[int, Tuple[List[int], bytes]] = {}
        for mid, payload in rec.items():
            idxs = [k for k, m in enumerate(metas) if len(m) > 5 and m[5] == "rec" and m[0] == mid]
            if idxs:
                rec_ranges[mid] = (idxs, payload)
        if ent["ep"] == "direct":
            res = W.feed_direct(frames, ent["kind"], monitored, tx_ids, ent.get("dt", "bytes"),
                                trace.get("padding", 0), restarts=segs, consume=ent.get("consume", "all"))
        elif ent["ep"] in ("text", "snoop"):
            res = run_text_segments(trace, ent, frames, metas, segs)
        else:
            res = run_bus_segments(trace, ent, frames, segs, clock)
        counters[f"entry_{ent['ep']}_{ent['kind']}"] = counters.get(f"entry_{ent['ep']}_{ent['kind']}", 0) + 1
        counters["frames_fed"] = counters.get("frames_fed", 0) + res.fed
        counters["reports"] = counters.get("reports", 0) + len(res.reports)
        log.ev(res.name, "done", {"fed": res.fed, "reports": [(k, i, p) for k, i, p in res.reports],
                                  "n_sent": len(res.sent)}, clock.now)
        ename = "all" if ei == 0 else ent["ep"]
        vs = judge(frames, segs, res, monitored, rec_ranges, ename)
        if res.raised is not None:
            log.ev(res.name, "raised", exc_sig(res.raised[1]))
        violations += vs
    if trace.get("probe_send_failures") and len(tx_ids) >= len(monitored):
        # transmit faults are observed, not judged (the statement quantifies over received frames)
        obs = W.probe_send_failures(frames, monitored, tx_ids, int(trace["probe_send_failures"]), trace.get("padding", 0))
        for k_, v_ in obs.items():
            if v_:
                probes["txfault_" + k_] = probes.get("txfault_" + k_, 0) + v_
        faults["transmit_failure(observed only)"] = faults.get("transmit_failure(observed only)", 0) + obs["send_failures_injected"]
        log.ev("sim", "txfault-probe", obs)
    seen = set()
    ref_seen = set()
    uniq = []
    for v in violations:
        core = (v["oracle"], tuple(sorted((k, x) for k, x in v["sig"].items() if k != "entry")))
        if v["sig"].get("entry") == "all":
            ref_seen.add(core)
        elif core in ref_seen:
            continue
        key = (v["oracle"], tuple(sorted(v["sig"].items())))
        if key not in seen:
            seen.add(key)
            uniq.append(v)
    for v in uniq:
        log.ev("oracle", "violation", {"oracle": v["oracle"], "sig": v["sig"]})
    nframes = sum(1 for f in trace["frames"] if f[2] != "restart")
    return {
        "digest": log.digest(),
        "events": log.events,
        "counters": counters,
        "faults": faults,
        "probes": probes,
        "states": states,
        "sched_sig": h64("sched", tuple(f[0] for f in trace["frames"])),
        "sim_time": 0.0005 * nframes * len(trace["entries"]),
        "violations": uniq,
        "nontrivial": nontrivial,
        "sample": {"monitored": monitored, "mode": trace.get("mode"), "faults": trace.get("faults", [])[:6],
                   "frames": [[f[0], f[1][:32], f[2], f[5] if len(f) > 5 else ""] for f in trace["frames"][:30]],
                   "entries": [f"{e['ep']}-{e['kind']}" for e in trace["entries"]]},
    }


# ------------------------------------------------------------------ minimisation
def trace_size(trace: Dict[str, Any]) -> int:
    if trace.get("kind") == "closed":
        return sum(len(t[1]) // 2 for t in trace["telegrams"]) + len(trace.get("faults", []))
    return len(trace["frames"])


def simpler_frame(f: List[Any]) -> List[List[Any]]:
    out = []
    if f[2] == "restart" or (len(f) > 5 and f[5] == "rec"):
        return out
    d = bytes.fromhex(f[1])
    if len(d) > 1:
        g = list(f)
        g[1] = d[:max(1, len(d) // 2)].hex()
        out.append(g)
        g = list(f)
        g[1] = d[:-1].hex()
        out.append(g)
    if len(d) > 1 and any(b for b in d[1:]):
        g = list(f)
        g[1] = (d[:1] + bytes(len(d) - 1)).hex()
        out.append(g)
    return out


def shrink(trace: Dict[str, Any], still_fails) -> Dict[str, Any]:
    if trace.get("kind") == "closed":
        b = ShrinkBudget(150)
        fl = ddmin_list(trace.get("faults", []), lambda f: still_fails({**trace, "faults": f}), b)
        cur = {**trace, "faults": fl}
        keep = [t for t in cur["telegrams"] if len(t) > 2]
        rest = [t for t in cur["telegrams"] if len(t) <= 2]
        rest = ddmin_list(rest, lambda t: still_fails({**cur, "telegrams": t + keep}), b)
        return {**cur, "telegrams": rest + keep}  # payloads are not shortened: the recovery telegram must stay unique
    budget = ShrinkBudget(2500)
    cur = trace
    if len(cur["entries"]) > 1:
        for ent in list(cur["entries"]):
            cand = {**cur, "entries": [ent]}
            budget.tests += 1
            if still_fails(cand):
                cur = cand
                break
    # drop recovery transfers as units
    for mid in list(cur.get("recovery", {})):
        cand = {**cur, "recovery": {k: v for k, v in cur["recovery"].items() if k != mid},
                "frames": [f for f in cur["frames"] if not (len(f) > 5 and f[5] == "rec" and str(f[0]) == mid)]}
        budget.tests += 1
        if still_fails(cand):
            cur = cand
    # ddmin over the non-recovery frames
    idx = [i for i, f in enumerate(cur["frames"]) if not (len(f) > 5 and f[5] == "rec")]

    def with_keep(keep: List[int]) -> Dict[str, Any]:
        ks = set(keep)
        return {**cur, "frames": [f for i, f in enumerate(cur["frames"])
                                  if (len(f) > 5 and f[5] == "rec") or i in ks]}

    keep = ddmin_list(idx, lambda k: still_fails(with_keep(k)), budget)
    cur = with_keep(keep)
    # simplify single frames
    frames = shrink_each(cur["frames"], simpler_frame, lambda fr: still_fails({**cur, "frames": fr}), budget)
    cur = {**cur, "frames": frames}
    # fewer monitored IDs
    for mid in list(cur["monitored"]):
        if len(cur["monitored"]) <= 1:
            break
        i = cur["monitored"].index(mid)
        cand = {**cur, "monitored": [m for m in cur["monitored"] if m != mid],
                "tx_ids": [t for j, t in enumerate(cur["tx_ids"]) if j != i],
                "recovery": {k: v for k, v in cur.get("recovery", {}).items() if k != str(mid)},
                "frames": [f for f in cur["frames"] if f[0] != mid]}
        budget.tests += 1
        if still_fails(cand):
            cur = cand
    cur = {**cur, "faults": [], "mode": "minimised"}
    return cur
