"""C14 - variant identification selects the first candidate whose pattern matches.

Tester actor = the real VariantMatcher driven as its docstring says; ECU actor = a stub
with a seeded, deterministic response function over a small alphabet (positive with
values, the service's negative response, global negative response, truncated positive,
foreign SID).  Candidates are real EcuVariant / BaseVariant objects built through the
public dataclass API.  The reference model knows the true values from the ECU table and
my own response encoder; it never calls odxtools' decoder.
"""
from typing import Any, Dict, List, Optional, Tuple

from ..core.evlog import EventLog, exc_sig
from ..core.seeds import Streams, h64, weighted
from ..core.shrink import ShrinkBudget

META: Dict[str, Any] = {
    "id": "C14",
    "level": "exploration",
    "pools": [{"backend": "c"}, {"backend": "py"}, {"backend": "c", "optimize": 1}],
    "tiers": {
        "quick": {"runs": 60000, "chunk": 250, "wall": 200, "chunk_wall": 300},
        "thorough": {"runs": 600000, "chunk": 300, "wall": 900, "chunk_wall": 600},
    },
    "selftest_runs": 5,
    "rule": ("one run = one configuration (0-4 candidate ECU or base variants, 0-3 patterns each, 1-3 "
             "matching parameters, ident services shared or distinct, SNREF / SNPATHREF targets into "
             "structures and end-of-PDU fields, uint / ASCII / byte-field / float values, service short names that name lists must mangle) x one "
             "deterministic ECU response table x cache on and off (both executed and compared). "
             "Non-trivial: at least 2 candidates and the reference model had to evaluate more than one "
             "matching parameter. Distinct = distinct event-log digest."),
    "state_measure": "(matching candidate index, requests issued without cache, requests issued with cache, distinct ident requests)",
    "sim_time_note": "no time in this property: logical request/response steps only",
    "components": {
        "real": ["odxtools.variantmatcher.VariantMatcher", "MatchingParameter / MatchingBaseVariantParameter",
                 "EcuVariant / BaseVariant / DiagService / Request / Response and the whole decode stack"],
        "stub": ["ECU (response table)", "response encoder for the simple layouts (model side)"],
    },
    "assumptions": ["a DID determines the response layout (same request bytes => same layout)",
                    "the ECU never answers with an empty byte string (indistinguishable from a missing evaluate())",
                    "expected values of float parameters are numeric strings"],
}

LAYOUTS = ["flat", "struct", "field", "ascii", "bytes", "float", "deep", "twopos", "bigfloat"]
TARGETS = {
    "flat": [("id", False), ("sup", False)],
    "struct": [("info.type", True), ("info.rev", True)],
    "field": [("items.v", True)],
    "ascii": [("name", False)],
    "bytes": [("raw", False)],
    "float": [("temp", False)],
    # IEEE doubles of large magnitude that differ by 1.0: clearly different values whatever the
    # comparison tolerance of small values is
    "bigfloat": [("level", False)],
    "deep": [("outer.inner.code", True), ("outer.list.v", True)],
    # two positive responses: a short one (only `id`) listed first and a long one (`id`, `sup`); the same bytes are
    # decodable by both, only the second one carries `sup`
    "twopos": [("id", False), ("sup", False)],
}
U8 = [0, 1, 2, 3]  # includes the falsy value 0
ASCII = ["AAA", "BBB", "CCC"]
BYTES = ["0a0b", "0a0c", "ff00"]
BIGF = [4000000000.0, 4000000001.0, 4000000002.0, 0.25]
# short names that a NamedItemList cannot use as they are (keyword, leading digit, member of the list class,
# taken "_2" suffix)
MANGLED = ["count", "count_2", "import", "22F18C_ReadSN"]
DIDS = [0xF190, 0xF191, 0xF1A0, 0x0101]


def pool_of(rs: int, index: int) -> int:
    return h64("pool", rs) % 3


# ------------------------------------------------------------------ model-side encoder
def value_type(layout: str, target: str) -> str:
    if layout == "ascii":
        return "ascii"
    if layout == "bytes":
        return "bytes"
    if layout in ("float", "bigfloat"):
        return "float"
    return "u8"


def encode_pos(did: int, layout: str, vals: Dict[str, Any]) -> bytes:
    head = bytes([0x62, did >> 8, did & 0xFF])
    if layout in ("flat", "twopos"):
        return head + bytes([vals["id"], vals["sup"]])
    if layout == "struct":
        return head + bytes([vals["info.type"], vals["info.rev"]])
    if layout == "field":
        return head + bytes(vals["items.v"])
    if layout == "ascii":
        return head + vals["name"].encode("ascii")
    if layout == "bytes":
        return head + bytes.fromhex(vals["raw"])
    if layout == "float":
        return head + bytes([vals["temp_raw"]])
    if layout == "bigfloat":
        import struct
        return head + struct.pack(">d", vals["level"])
    if layout == "deep":
        return head + bytes([vals["outer.inner.code"]]) + bytes(vals["outer.list.v"])
    raise ValueError(layout)


def truth_of(entry: Dict[str, Any], layout: str, target: str, lenient_foreign: bool = False) -> Any:
    # a response that differs from the positive response only in a constant (foreign
    # SID): whether that counts as "decoded" is not defined by the property text (the
    # library decodes it with a warning) - the oracle accepts both readings
    v = entry["values"]
    if entry["kind"] == "trunc" and layout in ("field", "deep"):
        # cutting bytes off a trailing end-of-PDU field just removes items
        key = "items.v" if layout == "field" else "outer.list.v"
        if entry["cut"] > len(v[key]):
            return None
        v = dict(v)
        v[key] = v[key][:len(v[key]) - entry["cut"]]
        return v[target]
    if entry["kind"] == "trunc" and layout == "twopos":
        # the short positive response still decodes a response cut by one byte
        return v["id"] if (target == "id" and entry["cut"] == 1) else None
    if entry["kind"] != "pos" and not (lenient_foreign and entry["kind"] == "foreign"):
        return None
    if layout == "float":
        return v["temp_raw"] * 0.5
    return v[target]


def matches(exp: str, truth: Any, vtype: str) -> bool:
    if truth is None:
        return False
    if isinstance(truth, list):
        return any(matches(exp, x, vtype) for x in truth)
    if vtype == "u8":
        return exp == str(truth)
    if vtype == "ascii":
        return exp == truth
    if vtype == "bytes":
        return truth.upper() == exp.upper()
    if vtype == "float":
        return abs(float(exp) - truth) < 1e-8
    raise ValueError(vtype)


def ecu_bytes(did: int, layout: str, entry: Dict[str, Any]) -> bytes:
    k = entry["kind"]
    if k == "pos":
        return encode_pos(did, layout, entry["values"])
    if k == "neg":
        return bytes([0x7F, 0x22, entry["nrc"]])
    if k == "gneg":
        return bytes([0x7F, 0x22, 0x10 | (entry["nrc"] & 0xF)])
    if k == "trunc":
        full = encode_pos(did, layout, entry["values"])
        return full[:max(1, len(full) - entry["cut"])]
    if k == "foreign":
        full = encode_pos(did, layout, entry["values"])
        return bytes([0x63]) + full[1:]
    raise ValueError(k)


def model_answer(cfg: Dict[str, Any], lenient_foreign: bool = False) -> Tuple[Optional[int], int]:
    """First candidate in list order having a pattern all of whose parameters match.
    Also returns how many parameters the model evaluated (for the non-triviality rule)."""
    evaluated = 0
    for vi, var in enumerate(cfg["variants"]):
        svc = {s["name"]: s for s in var["services"]}
        for pat in var["patterns"]:
            ok = True
            for mp in pat:
                s = svc[mp["svc"]]
                layout = cfg["did_layout"][str(s["did"])]
                entry = cfg["ecu"][str(s["did"])]
                evaluated += 1
                if not matches(mp["exp"], truth_of(entry, layout, mp["target"], lenient_foreign),
                               value_type(layout, mp["target"])):
                    ok = False
                    break
            if ok:
                return vi, evaluated
    return None, evaluated


# ------------------------------------------------------------------ generation
def gen_values(r, layout: str) -> Dict[str, Any]:
    if layout in ("flat", "twopos"):
        return {"id": r.choice(U8), "sup": r.choice(U8)}
    if layout == "struct":
        return {"info.type": r.choice(U8), "info.rev": r.choice(U8)}
    if layout == "field":
        return {"items.v": [r.choice(U8) for _ in range(r.choice([0, 1, 2, 3]))]}
    if layout == "ascii":
        return {"name": r.choice(ASCII)}
    if layout == "bytes":
        return {"raw": r.choice(BYTES)}
    if layout == "float":
        return {"temp_raw": r.choice(U8)}
    if layout == "bigfloat":
        return {"level": r.choice(BIGF)}
    if layout == "deep":
        return {"outer.inner.code": r.choice(U8), "outer.list.v": [r.choice(U8) for _ in range(r.choice([0, 1, 2]))]}
    raise ValueError(layout)


def gen_expected(r, layout: str, target: str) -> str:
    vt = value_type(layout, target)
    if layout == "bigfloat":
        return r.choice(["4000000000.0", "4000000001.0", "4000000002.0", "4000000000", "4e9", "0.25", "4000000003.0"])
    if vt == "u8":
        return r.choice(["0", "1", "2", "3", "3", "4", "01", "zz", ""][:7 if r.random() < 0.9 else 9])
    if vt == "ascii":
        return r.choice(ASCII + ["aaa", "AAAA"])
    if vt == "bytes":
        return r.choice(["0A0B", "0a0b", "0A0C", "FF00", "ff00", "0A", "0A0B00"])
    if vt == "float":
        return r.choice(["0", "0.0", "0.5", "1.0", "1", "1.5", "1.50", "2.5", "1.00000000001", "1.0001"])
    raise ValueError(vt)


def gen(rs: int, index: int, tier: str) -> Dict[str, Any]:
    S = Streams(rs)
    r = S.rng("cfg")
    kind = weighted(r, ["ecu", "base"], [3, 1])
    n_var = weighted(r, [0, 1, 2, 3, 4], [1, 3, 5, 5, 4])
    n_dids = r.randint(1, 4)
    dids = DIDS[:n_dids]
    enabled_layouts = [l for l in LAYOUTS if r.random() < 0.5] or [r.choice(LAYOUTS)]
    did_layout = {str(d): r.choice(enabled_layouts) for d in dids}
    # service naming: by DID (same name <=> same request), unique per variant, or positional (the same
    # name in different variants may stand for different requests)
    naming = weighted(r, ["by_did", "unique", "positional", "mangled"], [4, 3, 3, 2])
    variants = []
    for vi in range(n_var):
        n_svc = r.randint(1, min(3, n_dids))
        vd = r.sample(dids, n_svc)
        services = []
        for si, d in enumerate(vd):
            name = {"by_did": f"ident{dids.index(d)}", "unique": f"v{vi}_svc{si}", "positional": f"ident_{si}",
                    "mangled": MANGLED[dids.index(d)]}[naming]
            services.append({"name": name, "did": d})
        if kind == "base":
            n_pat = weighted(r, [0, 1], [1, 5])
        else:
            n_pat = weighted(r, [0, 1, 2, 3], [1, 5, 4, 2])
        patterns = []
        for _ in range(n_pat):
            pat = []
            for _ in range(weighted(r, [1, 2, 3], [4, 4, 2])):
                s = r.choice(services)
                layout = did_layout[str(s["did"])]
                target, is_path = r.choice(TARGETS[layout])
                pat.append({"svc": s["name"], "target": target, "path": is_path,
                            "exp": gen_expected(r, layout, target),
                            "phys": r.choice([None, True, False])})
            patterns.append(pat)
        variants.append({"name": f"var{vi}", "services": services, "patterns": patterns})
    re_ = S.rng("ecu")
    ecu = {}
    bias_pos = re_.choice([0.5, 0.8, 0.95])
    for d in dids:
        layout = did_layout[str(d)]
        if re_.random() < bias_pos:
            k = "pos"
        else:
            k = re_.choice(["neg", "gneg", "trunc", "foreign"])
        ecu[str(d)] = {"kind": k, "values": gen_values(re_, layout), "nrc": re_.choice([0x11, 0x12, 0x31, 0x78, 0x78]),
                       "cut": re_.randint(1, 2)}
    ra = S.rng("abandon")
    abandon = [ra.choice([0, 0, 1, 2, 3]), ra.random() < 0.5] if ra.random() < 0.35 else None
    return {"kind": kind, "variants": variants, "did_layout": did_layout, "ecu": ecu, "abandon": abandon,
            "field_max": S.rng("fieldmax").choice([None, 3, 3]),
            "reuse_buffer": S.rng("transport").random() < 0.3}


# ------------------------------------------------------------------ building real candidates
def build_candidates(cfg: Dict[str, Any]) -> List[Any]:
    from odxtools.basevariantpattern import BaseVariantPattern
    from odxtools.ecuvariantpattern import EcuVariantPattern
    from odxtools.matchingbasevariantparameter import MatchingBaseVariantParameter
    from odxtools.matchingparameter import MatchingParameter

    from ..zoo.mk import LayerBuilder
    out = []
    for var in cfg["variants"]:
        b = LayerBuilder(var["name"], cfg["kind"])
        u8 = b.dop("u8", b.slt(bits=8))
        asc = b.dop("asc3", b.slt("A_ASCIISTRING", 24))
        raw2 = b.dop("raw2", b.slt("A_BYTEFIELD", 16))
        flt = b.dop("half", b.slt(bits=8), compu=b.linear("A_UINT32", "A_FLOAT64", 0, 0.5))
        big = b.dop("big", b.slt("A_FLOAT64", 64))
        item_t = b.structure("item_t", [b.value("v", u8)])
        info_t = b.structure("info_t", [b.value("type", u8), b.value("rev", u8)])
        # MAX-NUMBER-OF-ITEMS = the largest number of items any response carries (a completely filled field)
        items_f = b.eopdu_field("items_f", item_t, max_items=cfg.get("field_max"))
        inner_t = b.structure("inner_t", [b.value("code", u8)])
        outer_t = b.structure("outer_t", [b.value("inner", inner_t), b.value("list", items_f)])
        b.response("gnr", [b.coded_const("sid", 0x7F), b.value("rq_sid", u8), b.value("nrc", u8)],
                   "GLOBAL_NEGATIVE")
        for s in var["services"]:
            did = s["did"]
            layout = cfg["did_layout"][str(did)]
            nm = s["name"]
            rq = b.request(f"rq_{nm}", [b.coded_const("sid", 0x22), b.coded_const("did", did, bits=16)])
            head = [b.coded_const("sid", 0x62), b.coded_const("did", did, bits=16)]
            if layout == "flat":
                body = [b.value("id", u8), b.value("sup", u8)]
            elif layout == "struct":
                body = [b.value("info", info_t)]
            elif layout == "field":
                body = [b.value("items", items_f)]
            elif layout == "ascii":
                body = [b.value("name", asc)]
            elif layout == "bytes":
                body = [b.value("raw", raw2)]
            elif layout == "float":
                body = [b.value("temp", flt)]
            elif layout == "bigfloat":
                body = [b.value("level", big)]
            elif layout == "deep":
                body = [b.value("outer", outer_t)]
            elif layout == "twopos":
                body = []
            else:
                raise ValueError(layout)
            pos = []
            if layout == "twopos":
                pos.append(b.response(f"rs_short_{nm}", [b.coded_const("sid", 0x62), b.coded_const("did", did, bits=16),
                                                         b.value("id", u8)]))
                body = [b.value("id", u8), b.value("sup", u8)]
            pos.append(b.response(f"rs_{nm}", head + body))
            ng = b.response(f"ng_{nm}", [b.coded_const("sid", 0x7F), b.coded_const("rq_sid", 0x22),
                                          b.nrc_const("nrc", [0x11, 0x12, 0x31, 0x78])], "NEGATIVE")
            b.service(nm, rq, pos, [ng])
        if cfg["kind"] == "ecu":
            pats = [EcuVariantPattern(matching_parameters=[
                MatchingParameter(expected_value=mp["exp"], diag_comm_snref=mp["svc"],
                                  out_param_if_snref=None if mp["path"] else mp["target"],
                                  out_param_if_snpathref=mp["target"] if mp["path"] else None)
                for mp in pat]) for pat in var["patterns"]]
            out.append(b.build(pats))
        else:
            bp = None
            if var["patterns"]:
                bp = BaseVariantPattern(matching_base_variant_parameters=[
                    MatchingBaseVariantParameter(expected_value=mp["exp"], diag_comm_snref=mp["svc"],
                                                 out_param_if_snref=None if mp["path"] else mp["target"],
                                                 out_param_if_snpathref=mp["target"] if mp["path"] else None,
                                                 use_physical_addressing_raw=mp.get("phys"))
                    for mp in var["patterns"][0]])
            out.append(b.build(base_pattern=bp))
    return out


# ------------------------------------------------------------------ execution
def drive(cands: List[Any], cfg: Dict[str, Any], use_cache: bool, log: EventLog,
          abandon_after: Optional[int] = None) -> Dict[str, Any]:
    """The tester actor: exactly the loop of the VariantMatcher docstring.  With `abandon_after` = k the
    tester first gives up after the k-th exchange (a transport timeout: the loop is left and the generator
    closed) and then runs the identification again on the same matcher."""
    from odxtools.variantmatcher import VariantMatcher
    table = {}
    for d, entry in cfg["ecu"].items():
        did = int(d)
        table[bytes([0x22, did >> 8, did & 0xFF])] = ecu_bytes(did, cfg["did_layout"][d], entry)
    res: Dict[str, Any] = {"requests": [], "exc": None, "unknown_request": None, "abandoned": False}
    rxbuf = bytearray()

    def deliver(resp: bytes):
        """What the transport hands to evaluate(): a fresh bytes object, or (receive-buffer reuse) one
        mutable buffer that is refilled in place for every response."""
        if not cfg.get("reuse_buffer"):
            return resp
        rxbuf[:] = resp
        return rxbuf

    try:
        m = VariantMatcher(cands, use_cache=use_cache)
        if abandon_after is not None:
            gen0 = m.request_loop()
            for i, (phys, req) in enumerate(gen0):
                reqb = bytes(req)
                log.ev("tester", "request-before-timeout", {"cache": use_cache, "req": reqb})
                m.evaluate(deliver(table.get(reqb) or bytes([0x7F, reqb[0] if reqb else 0, 0x11])))
                if i >= abandon_after:
                    res["abandoned"] = True
                    break
            gen0.close()
            log.ev("tester", "abandoned", {"after": abandon_after, "happened": res["abandoned"]})
        steps = 0
        for phys, req in m.request_loop():
            steps += 1
            if steps > 200:
                res["exc"] = RuntimeError("request loop did not terminate within 200 requests")
                return res
            reqb = bytes(req)
            res["requests"].append(reqb)
            log.ev("tester", "request", {"cache": use_cache, "req": reqb, "phys": bool(phys)})
            resp = table.get(reqb)
            if resp is None:
                res["unknown_request"] = reqb
                resp = bytes([0x7F, reqb[0] if reqb else 0, 0x11])
            log.ev("ecu", "response", {"resp": resp})
            m.evaluate(deliver(resp))
        res["has_match"] = m.has_match()
        mv = m.matching_variant
        res["match"] = None if mv is None else next((i for i, c in enumerate(cands) if c is mv), -2)
        # O5: running the loop again yields nothing and changes nothing
        again = list(m.request_loop())
        res["again"] = len(again)
        res["has_match2"] = m.has_match()
        mv2 = m.matching_variant
        res["match2"] = None if mv2 is None else next((i for i, c in enumerate(cands) if c is mv2), -2)
    except Exception as e:  # noqa: BLE001
        res["exc"] = e
    return res


def execute(trace: Dict[str, Any]) -> Dict[str, Any]:
    log = EventLog()
    cfg = trace
    violations: List[Dict[str, Any]] = []
    counters: Dict[str, int] = {}
    probes: Dict[str, int] = {}
    states = set()
    cands = build_candidates(cfg)
    want, evaluated = model_answer(cfg)
    want_alt, _ = model_answer(cfg, lenient_foreign=True)
    log.ev("sim", "config", {"kind": cfg["kind"], "n": len(cands), "model": want})
    valid_reqs = set()
    for var in cfg["variants"]:
        svc = {s["name"]: s for s in var["services"]}
        for pat in var["patterns"]:
            for mp in pat:
                d = svc[mp["svc"]]["did"]
                valid_reqs.add(bytes([0x22, d >> 8, d & 0xFF]))
    results = {}
    for use_cache in (False, True):
        res = drive(cands, cfg, use_cache, log)
        results[use_cache] = res
        tag = "cache" if use_cache else "nocache"
        if res["exc"] is not None:
            sig = exc_sig(res["exc"])
            violations.append({"oracle": "C14.raises", "sig": {**sig, "cache": use_cache},
                               "detail": {"msg": str(res["exc"])[:200]}})
            log.ev("oracle", "violation", {"raises": sig, "cache": use_cache})
            continue
        got = res["match"] if res["has_match"] else None
        log.ev("tester", "verdict", {"cache": use_cache, "match": got, "n_req": len(res["requests"])})
        if res["has_match"] != (res["match"] is not None):
            violations.append({"oracle": "C14.O1-first-match", "sig": {"what": "has_match-inconsistent", "cache": use_cache},
                               "detail": {"has_match": res["has_match"], "match": res["match"]}})
        elif got != want and got != want_alt:
            if want is None:
                what = "false-match"
            elif got is None:
                what = "missed-match"
            else:
                what = "later-candidate" if got > want else "earlier-candidate"
            violations.append({"oracle": "C14.O1-first-match", "sig": {"what": what, "cache": use_cache},
                               "detail": {"model": want, "got": got, "requests": [x.hex() for x in res["requests"]]}})
        bad = [x for x in res["requests"] if x not in valid_reqs]
        if bad:
            violations.append({"oracle": "C14.O3-only-ident-requests", "sig": {"cache": use_cache},
                               "detail": {"request": bad[0].hex()}})
        if use_cache and len(set(res["requests"])) != len(res["requests"]):
            violations.append({"oracle": "C14.O4-no-request-twice-with-cache", "sig": {},
                               "detail": {"requests": [x.hex() for x in res["requests"]]}})
        if res["again"] != 0 or res["has_match2"] != res["has_match"] or res["match2"] != res["match"]:
            violations.append({"oracle": "C14.O5-rerun-is-noop", "sig": {"cache": use_cache},
                               "detail": {"again": res["again"]}})
        counters["requests_" + tag] = len(res["requests"])
    # fault: the tester abandons the loop after k exchanges and retries on the same matcher
    ab = cfg.get("abandon")
    if ab is not None and not violations:
        res = drive(cands, cfg, bool(ab[1]), log, abandon_after=int(ab[0]))
        if res["abandoned"]:
            probes["loop_abandoned_and_retried"] = 1
            if res["exc"] is not None:
                sig = exc_sig(res["exc"])
                violations.append({"oracle": "C14.O6-abandon-and-retry", "sig": {"what": "raises", **sig},
                                   "detail": {"msg": str(res["exc"])[:200], "abandon": ab}})
            else:
                got = res["match"] if res["has_match"] else None
                if got != want and got != want_alt:
                    violations.append({"oracle": "C14.O6-abandon-and-retry",
                                       "sig": {"what": "wrong-verdict-after-retry", "cache": bool(ab[1])},
                                       "detail": {"model": want, "got": got, "abandon": ab,
                                                  "requests_in_retry": [x.hex() for x in res["requests"]]}})
    a, b = results[False], results[True]
    if a["exc"] is None and b["exc"] is None:
        ga = a["match"] if a["has_match"] else None
        gb = b["match"] if b["has_match"] else None
        if ga != gb:
            violations.append({"oracle": "C14.O2-cache-independence", "sig": {},
                               "detail": {"nocache": ga, "cache": gb}})
        if len(b["requests"]) < len(a["requests"]):
            probes["cache_hit"] = 1
        states.add(h64("st", want, len(a["requests"]), len(b["requests"]), len(valid_reqs)))
    if want is not None and want > 0:
        probes["match_not_first_candidate"] = 1
    if want is None and cands:
        probes["no_match"] = 1
    kinds = sorted({e["kind"] for e in cfg["ecu"].values()})
    for k in kinds:
        probes["ecu_answer_" + k] = 1
    seen = set()
    uniq = []
    for v in violations:
        key = (v["oracle"], tuple(sorted(v["sig"].items())))
        if key not in seen:
            seen.add(key)
            uniq.append(v)
    return {
        "digest": log.digest(),
        "events": log.events,
        "counters": counters,
        "faults": {**{("ecu_" + k): 1 for k in kinds if k != "pos"},
                   **({"tester_abandons_loop": 1} if probes.get("loop_abandoned_and_retried") else {})},
        "probes": probes,
        "states": states,
        "sched_sig": h64("cfg", len(cands), tuple(len(v["patterns"]) for v in cfg["variants"])),
        "sim_time": 0.0,
        "violations": uniq,
        "nontrivial": len(cands) >= 2 and evaluated >= 2,
        "sample": {"config": cfg, "model_answer": want},
    }


# ------------------------------------------------------------------ minimisation
def trace_size(trace: Dict[str, Any]) -> int:
    return sum(1 + sum(len(p) for p in v["patterns"]) for v in trace["variants"])


def shrink(trace: Dict[str, Any], still_fails) -> Dict[str, Any]:
    import copy
    budget = ShrinkBudget(400)
    cur = trace
    changed = True
    while changed and not budget.spent():
        changed = False
        # drop candidates
        for i in range(len(cur["variants"]) - 1, -1, -1):
            cand = copy.deepcopy(cur)
            del cand["variants"][i]
            budget.tests += 1
            if still_fails(cand):
                cur, changed = cand, True
                break
        if changed:
            continue
        # drop patterns
        for i, v in enumerate(cur["variants"]):
            for j in range(len(v["patterns"]) - 1, -1, -1):
                cand = copy.deepcopy(cur)
                del cand["variants"][i]["patterns"][j]
                budget.tests += 1
                if still_fails(cand):
                    cur, changed = cand, True
                    break
            if changed:
                break
        if changed:
            continue
        # drop matching parameters
        for i, v in enumerate(cur["variants"]):
            for j, p in enumerate(v["patterns"]):
                if len(p) <= 1:
                    continue
                for k in range(len(p) - 1, -1, -1):
                    cand = copy.deepcopy(cur)
                    del cand["variants"][i]["patterns"][j][k]
                    budget.tests += 1
                    if still_fails(cand):
                        cur, changed = cand, True
                        break
                if changed:
                    break
            if changed:
                break
        if changed:
            continue
        # drop unused services
        for i, v in enumerate(cur["variants"]):
            used = {mp["svc"] for p in v["patterns"] for mp in p}
            for j in range(len(v["services"]) - 1, -1, -1):
                if v["services"][j]["name"] in used or len(v["services"]) <= 1:
                    continue
                cand = copy.deepcopy(cur)
                del cand["variants"][i]["services"][j]
                budget.tests += 1
                if still_fails(cand):
                    cur, changed = cand, True
                    break
            if changed:
                break
    # simplify ECU answers to positive
    for d, e in list(cur["ecu"].items()):
        if e["kind"] != "pos":
            cand = copy.deepcopy(cur)
            cand["ecu"][d]["kind"] = "pos"
            budget.tests += 1
            if still_fails(cand):
                cur = cand
    return cur
