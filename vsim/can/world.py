"""The simulated CAN world: reference ISO 15765-2 segmenter (stub), candump renderers,
text stream and bus seams, virtual-time asyncio loop, and the runners that feed a
delivered frame sequence to every entry point of the (real) odxtools reassembler.

Nothing here imports odxtools at module level (the parent process must not).
"""
import asyncio
import contextlib
import io
import sys
from typing import Any, Callable, Dict, List, Optional, Sequence, Tuple

FD_LENGTHS = (8, 12, 16, 20, 24, 32, 48, 64)


# --------------------------------------------------------------------------- segmenter
def dlc_round(n: int) -> int:
    for v in FD_LENGTHS:
        if n <= v:
            return v
    raise ValueError(n)


def pad_frame(frame: bytes, tx_dl: int, pad_mode: str, pad_byte: int) -> bytes:
    """pad_mode: 'none' (only what CAN itself forces: frames > 8 bytes go to the next
    valid FD length), 'dlc' (pad to 8 / next valid FD length), 'full' (pad to TX_DL)."""
    n = len(frame)
    if pad_mode == "full":
        target = max(tx_dl, n)
    elif pad_mode == "dlc":
        target = dlc_round(n)
    else:
        target = n if n <= 8 else dlc_round(n)
    return frame + bytes([pad_byte]) * (target - n)


def segment(payload: bytes, tx_dl: int = 8, pad_mode: str = "none", pad_byte: int = 0xCC
            ) -> List[Tuple[bytes, str]]:
    """ISO 15765-2 segmentation, written from the standard (not from odxtools).

    Returns [(frame bytes, kind)], kind in sf / sfx (FD escape) / ff / cf."""
    n = len(payload)
    assert 1 <= n <= 4095
    out: List[Tuple[bytes, str]] = []
    if n <= 7:
        out.append((pad_frame(bytes([n]) + payload, tx_dl, pad_mode, pad_byte), "sf"))
        return out
    if tx_dl > 8 and n <= tx_dl - 2:
        out.append((pad_frame(bytes([0x00, n]) + payload, tx_dl, pad_mode, pad_byte), "sfx"))
        return out
    ff_len = tx_dl - 2
    out.append((bytes([0x10 | (n >> 8), n & 0xFF]) + payload[:ff_len], "ff"))
    pos = ff_len
    sn = 1
    while pos < n:
        chunk = payload[pos:pos + tx_dl - 1]
        pos += len(chunk)
        out.append((pad_frame(bytes([0x20 | sn]) + chunk, tx_dl, pad_mode, pad_byte), "cf"))
        sn = (sn + 1) % 16
    return out


def flow_control(flag: int, bs: int, stmin: int, pad_to: int = 0, pad_byte: int = 0xCC) -> bytes:
    f = bytes([0x30 | (flag & 0xF), bs & 0xFF, stmin & 0xFF])
    if len(f) < pad_to:
        f += bytes([pad_byte]) * (pad_to - len(f))
    return f


# --------------------------------------------------------------------------- text rendering
def render_line(can_id: int, data: bytes, fmt: str, t: float, style: int = 0) -> str:
    """candump renderings. fmt: n = `candump can0` console format (style bit 4: with the
    ASCII column of `candump -a`), l = `candump -l` log format, f = log format for CAN FD
    frames (##<flags>)."""
    if fmt == "n":
        ident = f"{can_id:03X}" if can_id <= 0x7FF else f"{can_id:08X}"
        body = " ".join(f"{b:02X}" for b in data)
        lead = ("  ", " ", "", "  ")[style % 4]
        iface = ("can0", "vcan0", "can-fd0", "slcan0", "can1", "mcp-can_2", "can0", "vcan_diag")[style % 8]
        line = f"{lead}{iface}  {ident}   [{len(data)}]  {body}"
        if style & 16 and len(data) > 0:
            # `candump -a`: an ASCII column follows the data bytes
            line += "   '" + "".join(chr(b) if 0x20 < b < 0x7F else "." for b in data) + "'"
        return line
    ident = f"{can_id:03X}" if can_id <= 0x7FF else f"{can_id:08X}"
    hexdata = data.hex().upper() if style % 2 == 0 else data.hex()
    iface = ("can0", "vcan0", "can-fd0", "mcp-can_2")[style % 4]
    if fmt == "l":
        return f"({t:.6f}) {iface} {ident}#{hexdata}"
    if fmt == "f":
        return f"({t:.6f}) {iface} {ident}##{(1, 0, 3, 5)[style % 4]:X}{hexdata}"
    raise ValueError(fmt)


class SimTextIO(io.TextIOBase):
    """The text stream handed to read_telegrams(): a seam, lines come from the trace.

    `cursor` tells the world which delivered frame the reader is currently working on."""

    def __init__(self, lines: Sequence[Tuple[str, Optional[int]]]):
        super().__init__()
        self._lines = list(lines)
        self._pos = 0
        self.cursor: Optional[int] = None
        self.on_cursor: Optional[Callable[[int], None]] = None

    def readable(self) -> bool:
        return True

    def readline(self, size: int = -1) -> str:  # type: ignore[override]
        if self._pos >= len(self._lines):
            return ""
        text, fidx = self._lines[self._pos]
        self._pos += 1
        if fidx is not None:
            self.cursor = fidx
            if self.on_cursor is not None:
                self.on_cursor(fidx)
        return text


# --------------------------------------------------------------------------- clock / loop
class SimClock:

    def __init__(self) -> None:
        self.now = 0.0

    def advance(self, dt: float) -> None:
        if dt > 0:
            self.now += dt


class SimEnd(BaseException):
    """End of the simulation, delivered through a blocking recv()."""


class _IdleSelector:

    def __init__(self, loop: "VirtualLoop"):
        self.loop = loop

    def select(self, timeout: Optional[float]) -> list:
        loop = self.loop
        if timeout is None:
            # nothing runnable, no timer: the simulator delivers the next external event
            if not loop.on_idle():
                raise SimEnd()
        elif timeout > 0:
            loop.clock.advance(timeout)
        return []

    def close(self) -> None:
        pass


class VirtualLoop(asyncio.BaseEventLoop):
    """asyncio loop on simulated time: timers fire by jumping the clock; when nothing is
    runnable the `on_idle` hook (the simulator) decides what happens next."""

    def __init__(self, clock: SimClock, on_idle: Callable[[], bool]):
        super().__init__()
        self.clock = clock
        self.on_idle = on_idle
        self._selector = _IdleSelector(self)
        self.readers: List[Tuple[Any, Callable, tuple]] = []

    def time(self) -> float:
        return self.clock.now

    def _process_events(self, event_list: list) -> None:
        pass

    def _write_to_self(self) -> None:
        pass

    def add_reader(self, fd: Any, callback: Callable, *args: Any) -> None:  # type: ignore[override]
        self.remove_reader(fd)
        self.readers.append((fd, callback, args))

    def remove_reader(self, fd: Any) -> bool:  # type: ignore[override]
        n = len(self.readers)
        self.readers = [r for r in self.readers if r[0] is not fd]
        return len(self.readers) != n

    def notify_readable(self, fd: Any) -> None:
        for f, cb, args in self.readers:
            if f is fd:
                self.call_soon(cb, *args)


def run_on_virtual_loop(coro_fn: Callable[[], Any], clock: SimClock, on_idle: Callable[[], bool],
                        loop_box: Optional[list] = None) -> None:
    loop = VirtualLoop(clock, on_idle)
    if loop_box is not None:
        loop_box.append(loop)
    try:
        task = loop.create_task(coro_fn(), name="node-under-test")
        try:
            loop.run_until_complete(task)
        except SimEnd:
            task.cancel()
            with contextlib.suppress(BaseException):
                loop.run_until_complete(task)
    finally:
        with contextlib.suppress(Exception):
            loop.run_until_complete(loop.shutdown_asyncgens())
        loop.close()


# --------------------------------------------------------------------------- bus seam
def wire_id(msg) -> int:
    """The identifier a frame carries on the wire: a standard-format frame has 11 identifier bits only."""
    if getattr(msg, "is_extended_id", False):
        # an extended-format frame whose identifier would also fit into 11 bits is still another identifier on the
        # wire than the standard-format one (a node listening for the 11-bit ID does not receive it): marked with
        # the IDE flag, like socketcan's CAN_EFF_FLAG (seeded change C12-P)
        return msg.arbitration_id | (0x80000000 if msg.arbitration_id <= 0x7FF else 0)
    return msg.arbitration_id & 0x7FF


def make_bus_class():
    import can

    class SimBus(can.BusABC):
        """Stub CAN bus: recv() *is* the scheduler ("the simulator delivers the next
        event"); send() records what the node under test transmits."""

        def __init__(self, next_frame: Callable[[], Optional[Any]], on_send: Callable[[Any], None]):
            super().__init__(channel="sim")
            self._next_frame = next_frame
            self._on_send = on_send
            self.channel_info = "sim"

        def recv(self, timeout: Optional[float] = None):  # type: ignore[override]
            msg = self._next_frame()
            if msg is None:
                raise SimEnd()
            return msg

        def _recv_internal(self, timeout):  # pragma: no cover - recv() is overridden
            raise SimEnd()

        def send(self, msg, timeout: Optional[float] = None) -> None:  # type: ignore[override]
            self._on_send(msg)

        def fileno(self) -> int:
            return -1

    return SimBus


class _NullOut:

    def write(self, s: str) -> int:
        return len(s)

    def flush(self) -> None:
        pass


NULL_OUT = _NullOut()


@contextlib.contextmanager
def quiet():
    so, se = sys.stdout, sys.stderr
    sys.stdout = NULL_OUT  # type: ignore[assignment]
    sys.stderr = NULL_OUT  # type: ignore[assignment]
    try:
        yield
    finally:
        sys.stdout, sys.stderr = so, se


# --------------------------------------------------------------------------- entry points
class EntryResult:

    def __init__(self, name: str):
        self.name = name
        self.reports: List[Tuple[int, int, bytes]] = []  # (frame index, id, payload snapshot)
        self.sent: List[Tuple[int, int, bytes]] = []  # (frame index, arbitration id, data)
        self.raised: Optional[Tuple[int, BaseException]] = None
        self.callbacks: Dict[str, int] = {}
        self.fed = 0


def make_machine(kind: str, monitored: List[int], tx_ids: List[int], res: EntryResult,
                 cursor: Callable[[], int], padding: int = 0):
    """kind: passive | active | vpassive | vactive (v = wrapped by snoop's verbose subclass)."""
    import can  # noqa

    import odxtools.isotp_state_machine as ism
    bus = None
    if kind.endswith("active"):
        SimBus = make_bus_class()

        def on_send(msg) -> None:
            res.sent.append((cursor(), wire_id(msg), bytes(msg.data)))

        bus = SimBus(lambda: None, on_send)
        args = dict(can_bus=bus, can_rx_ids=list(monitored), can_tx_ids=list(tx_ids),
                    padding_size=padding)
        base = ism.IsoTpActiveDecoder
    else:
        args = dict(can_rx_ids=list(monitored) if len(monitored) != 1 or kind.startswith("v") else
                    monitored[0])
        base = ism.IsoTpStateMachine
    if kind.startswith("v"):
        from odxtools.cli import snoop
        sm = snoop.init_verbose_state_machine(base, **args)
    else:
        sm = base(**args)
    return sm, bus


def shut(bus) -> None:
    if bus is not None:
        with contextlib.suppress(Exception):
            bus.shutdown()


def feed_direct(frames: Sequence[Tuple[int, bytes]], kind: str, monitored: List[int],
                tx_ids: List[int], data_type: str = "bytes", padding: int = 0,
                restarts: Sequence[int] = (), consume: str = "all") -> EntryResult:
    """decode_rx_frame called frame by frame. `restarts`: frame indices before which the
    node under test crashes and restarts (a fresh state machine, no durable state)."""
    import can
    res = EntryResult(f"direct-{kind}-{data_type}")
    cur = [0]
    reuse_buf: Optional[bytearray] = None
    sm, bus = make_machine(kind, monitored, tx_ids, res, lambda: cur[0], padding)
    try:
        with quiet():
            for k, (fid, data) in enumerate(frames):
                if k in restarts:
                    shut(bus)
                    sm, bus = make_machine(kind, monitored, tx_ids, res, lambda: cur[0], padding)
                cur[0] = k
                if data_type == "reused":
                    # the caller owns one receive buffer: refilled in place for every frame and scribbled
                    # over right after the call (aliasing of caller-owned data must not matter)
                    if reuse_buf is None:
                        reuse_buf = bytearray()
                    reuse_buf[:] = data
                    arg: Any = reuse_buf
                elif data_type == "bytearray":
                    arg = bytearray(data)
                elif data_type == "message":
                    arg = can.Message(arbitration_id=fid, data=data, is_extended_id=fid > 0x7FF,
                                      is_fd=len(data) > 8, check=False).data
                else:
                    arg = bytes(data)
                res.fed += 1
                try:
                    if consume == "first":
                        # a consumer that takes the (at most one) telegram of a frame and stops iterating:
                        # the generator is closed at its yield, code after the yield never runs
                        it = iter(sm.decode_rx_frame(fid, arg))
                        first = next(it, None)
                        if first is not None:
                            res.reports.append((k, first[0], bytes(first[1])))
                        close = getattr(it, "close", None)
                        if close is not None:
                            close()
                    else:
                        for rid, payload in sm.decode_rx_frame(fid, arg):
                            res.reports.append((k, rid, bytes(payload)))
                except Exception as e:  # noqa: BLE001 - the oracle judges it
                    res.raised = (k, e)
                    break
                if data_type == "reused" and reuse_buf is not None:
                    reuse_buf[:] = b"\xEE" * len(reuse_buf)
    finally:
        shut(bus)
    return res


def probe_send_failures(frames: Sequence[Tuple[int, bytes]], monitored: List[int], tx_ids: List[int],
                        fail_every: int, padding: int = 0) -> Dict[str, int]:
    """Transmit faults (observed, not judged): the bus of an active decoder rejects every n-th send with
    can.CanOperationError ("transmit buffer full", interface down).  Counts how often the error escapes
    decode_rx_frame() and how many telegrams are still reported."""
    import can

    import odxtools.isotp_state_machine as ism
    obs = {"sends": 0, "send_failures_injected": 0, "escaped_decode_rx_frame": 0, "telegrams_reported": 0,
           "other_exceptions": 0}
    SimBus = make_bus_class()

    def on_send(msg) -> None:
        obs["sends"] += 1
        if obs["sends"] % max(1, fail_every) == 0:
            obs["send_failures_injected"] += 1
            raise can.CanOperationError("simulated: transmit buffer full")

    bus = SimBus(lambda: None, on_send)
    try:
        with quiet():
            sm = ism.IsoTpActiveDecoder(can_bus=bus, can_rx_ids=list(monitored), can_tx_ids=list(tx_ids),
                                        padding_size=padding)
            for fid, data in frames:
                try:
                    for _ in sm.decode_rx_frame(fid, bytes(data)):
                        obs["telegrams_reported"] += 1
                except can.CanOperationError:
                    obs["escaped_decode_rx_frame"] += 1
                except Exception:  # noqa: BLE001
                    obs["other_exceptions"] += 1
    finally:
        shut(bus)
    return obs


def drive_agen(agen, on_item: Callable[[Any], None]) -> None:
    """Drive an async generator that never really awaits (the text path) by hand."""
    while True:
        try:
            agen.__anext__().send(None)
        except StopIteration as si:
            on_item(si.value)
            continue
        except StopAsyncIteration:
            return
        raise RuntimeError("read_telegrams(TextIO) awaited something; the text path is expected "
                           "to be synchronous")


def feed_text(lines: Sequence[Tuple[str, Optional[int]]], kind: str, monitored: List[int],
              tx_ids: List[int], padding: int = 0, portions: int = 1,
              head_direct: Optional[Tuple[Sequence[Tuple[int, bytes]], int]] = None) -> EntryResult:
    """read_telegrams(TextIO).  `portions` > 1: the log arrives as several consecutive
    streams (rotated log files, a capture that is resumed), each handed to a separate
    read_telegrams() call of the SAME state machine.  `head_direct` = (frames, k): the first
    k frames were already given to decode_rx_frame() by the caller before the log (starting
    with frame k) is read."""
    res = EntryResult(f"text-{kind}" + (f"-p{portions}" if portions > 1 else "") + ("-mixed" if head_direct else ""))
    lines = list(lines)
    cur = [0]
    sm, bus = make_machine(kind, monitored, tx_ids, res, lambda: cur[0], padding)
    try:
        with quiet():
            try:
                if head_direct is not None:
                    frames, k = head_direct
                    for j, (fid, data) in enumerate(frames[:k]):
                        cur[0] = j
                        for rid, payload in sm.decode_rx_frame(fid, bytes(data)):
                            res.reports.append((j, rid, bytes(payload)))
                    first = next((n for n, (_, fi) in enumerate(lines) if fi is not None and fi >= k), len(lines))
                    lines = lines[first:]
                portions = max(1, min(portions, max(1, len(lines))))
                bounds = [len(lines) * j // portions for j in range(portions + 1)]
                for a, b in zip(bounds, bounds[1:]):
                    stream = SimTextIO(lines[a:b])

                    def on_item(item, stream=stream) -> None:
                        if stream.cursor is not None:
                            cur[0] = stream.cursor
                        res.reports.append((cur[0], item[0], bytes(item[1])))

                    agen = sm.read_telegrams(stream)
                    # the cursor of the active portion is what the bus stub of an active decoder stamps
                    _track(stream, cur)
                    drive_agen(agen, on_item)
            except Exception as e:  # noqa: BLE001
                res.raised = (cur[0], e)
    finally:
        shut(bus)
    res.fed = sum(1 for _, f in lines if f is not None) + (head_direct[1] if head_direct else 0)
    return res


def _track(stream: "SimTextIO", cur: List[int]) -> None:
    stream.on_cursor = lambda c: cur.__setitem__(0, c)


_SNOOP: Dict[str, Any] = {}


def preload_snoop_layer() -> None:
    """The diagnostic layer the snoop tool decodes telegrams with (shipped example database)."""
    if "layer" not in _SNOOP:
        import os

        import odxtools

        from ..core import worker
        with quiet():
            db = odxtools.load_pdx_file(os.path.join(worker.repo_dir(), "examples", "somersault.pdx"))
        _SNOOP["layer"] = db.ecus.somersault_lazy


def feed_snoop(lines: Sequence[Tuple[str, Optional[int]]], monitored: List[int], strict: bool = True) -> EntryResult:
    """The complete tool: `odxtools snoop` in passive mode reading a capture from stdin (snoop.passive_main with
    its module globals set as snoop.run() sets them).  Telegrams are observed where the tool consumes them
    (snoop.handle_telegram); what the tool prints is not judged here."""
    import argparse

    from odxtools.cli import snoop
    import odxtools.exceptions as exc_mod
    preload_snoop_layer()
    res = EntryResult("snoop-passive" + ("" if strict else "-nostrict"))
    old_strict = exc_mod.strict_mode
    # `odxtools --no-strict snoop ...` runs the tool with the strict mode switched off
    exc_mod.strict_mode = bool(strict)
    stream = SimTextIO(lines)
    orig = snoop.handle_telegram

    def spy(telegram_id: int, payload: bytes) -> None:
        res.reports.append((stream.cursor or 0, telegram_id, bytes(payload)))
        orig(telegram_id, payload)

    old_stdin = sys.stdin
    snoop.odx_diag_layer = _SNOOP["layer"]
    snoop.last_request = None
    snoop.handle_telegram = spy  # type: ignore[assignment]
    args = argparse.Namespace(rx=hex(monitored[0]), tx=hex(monitored[1]), channel=None)
    try:
        with quiet():
            sys.stdin = stream  # type: ignore[assignment]
            try:
                coro = snoop.passive_main(args)
                try:
                    coro.send(None)
                    coro.close()
                    raise RuntimeError("snoop.passive_main(stdin) awaited something; expected to be synchronous")
                except StopIteration:
                    pass
            except RuntimeError:
                raise
            except Exception as e:  # noqa: BLE001 - the oracle judges it
                res.raised = (stream.cursor or 0, e)
    finally:
        sys.stdin = old_stdin
        snoop.handle_telegram = orig  # type: ignore[assignment]
        exc_mod.strict_mode = old_strict
    res.fed = sum(1 for _, f in lines if f is not None)
    return res


def feed_bus(frames: Sequence[Tuple[int, bytes]], kind: str, monitored: List[int], tx_ids: List[int],
             clock: SimClock, padding: int = 0, gap: float = 0.0005) -> EntryResult:
    """read_telegrams(BusABC) on the virtual-time loop; the bus seam is the scheduler."""
    import can
    res = EntryResult(f"bus-{kind}")
    SimBus = make_bus_class()
    state = {"k": -1}
    loop_box: list = []

    def next_frame():
        state["k"] += 1
        k = state["k"]
        if k >= len(frames):
            return None
        clock.advance(gap)
        fid, data = frames[k]
        res.fed += 1
        return can.Message(timestamp=clock.now, arbitration_id=fid, data=data,
                           is_extended_id=fid > 0x7FF, is_fd=len(data) > 8, check=False)

    def on_send(msg) -> None:
        res.sent.append((max(state["k"], 0), wire_id(msg), bytes(msg.data)))

    rx_bus = SimBus(next_frame, on_send)
    if kind.endswith("active"):
        import odxtools.isotp_state_machine as ism
        args = dict(can_bus=rx_bus, can_rx_ids=list(monitored), can_tx_ids=list(tx_ids),
                    padding_size=padding)
        base = ism.IsoTpActiveDecoder
    else:
        import odxtools.isotp_state_machine as ism
        args = dict(can_rx_ids=list(monitored))
        base = ism.IsoTpStateMachine
    if kind.startswith("v"):
        from odxtools.cli import snoop
        sm = snoop.init_verbose_state_machine(base, **args)
    else:
        sm = base(**args)

    notified = {"n": 0}

    def on_idle() -> bool:
        # a frame becomes readable on the bus "file descriptor"
        if state["k"] + 1 >= len(frames) and notified["n"] > 0:
            return False
        notified["n"] += 1
        loop_box[0].notify_readable(rx_bus)
        return True

    async def consume() -> None:
        try:
            async for rid, payload in sm.read_telegrams(rx_bus):
                res.reports.append((max(state["k"], 0), rid, bytes(payload)))
        except SimEnd:
            return
        except Exception as e:  # noqa: BLE001
            res.raised = (max(state["k"], 0), e)

    try:
        with quiet():
            run_on_virtual_loop(consume, clock, on_idle, loop_box)
    finally:
        shut(rx_bus)
    return res
