"""Closed-loop CAN world: real third-party ISO-TP stacks (can-isotp TransportLayerLogic)
as traffic sources, stepped under the simulated clock, with real flow control, block size
and STmin.  The odxtools node under test either snoops the conversation of two stacks
(passive) or is itself the receiver whose flow-control frames the sending stack waits for
(active decoder).

Every source of nondeterminism is owned by the simulator: the stacks' clock
(isotp.protocol.time / isotp.tools.time are replaced by a module-like object reading the
simulated clock), bus arbitration between pending frames (seeded), frame loss /
duplication (explicit list in the trace).
"""
import random
from typing import Any, Callable, Dict, List, Optional, Tuple

from . import world as W


class SimTimeModule:
    """Stands in for the `time` module inside can-isotp."""

    def __init__(self, clock: W.SimClock):
        self.clock = clock

    def perf_counter(self) -> float:
        return self.clock.now

    def perf_counter_ns(self) -> int:
        return int(round(self.clock.now * 1e9))

    def monotonic(self) -> float:
        return self.clock.now

    def monotonic_ns(self) -> int:
        return int(round(self.clock.now * 1e9))

    def time(self) -> float:
        return 1_700_000_000.0 + self.clock.now

    def sleep(self, dt: float) -> None:
        self.clock.advance(max(0.0, dt))


class ClosedLoopResult:

    def __init__(self) -> None:
        self.delivered: List[Tuple[int, bytes, str]] = []  # (id, data, source node)
        self.reports: List[Tuple[int, int, bytes]] = []  # (delivered-frame index, id, payload)
        self.sent_by_nut: List[Tuple[int, int, bytes]] = []
        self.raised: Optional[Tuple[int, BaseException]] = None
        self.stack_errors: List[Tuple[str, str]] = []
        self.received_by_stacks: Dict[str, List[bytes]] = {}
        self.completed = False
        self.steps = 0
        self.bus_n = 0
        self.faults_fired: Dict[str, int] = {}


def run_closed_loop(cfg: Dict[str, Any], telegrams: List[List[Any]], sched_seed: int,
                    faults: List[List[Any]], clock: W.SimClock, max_steps: int = 60000) -> ClosedLoopResult:
    """cfg: {mode: snoop|active, kind: passive|vpassive|active|vactive, rx_id, tx_id, stmin, blocksize,
             tx_dl, padding (int or None), nut_padding, tick}
    telegrams: [[direction 'req'|'rsp', hex payload], ...] (direction 'rsp' only in snoop mode)
    faults: [[delivered-frame ordinal, 'drop'|'dup'], ...] applied by the bus."""
    import can
    import isotp
    import isotp.protocol
    import isotp.tools

    res = ClosedLoopResult()
    tm = SimTimeModule(clock)
    old_pt, old_tt = isotp.protocol.time, isotp.tools.time
    isotp.protocol.time = tm  # type: ignore[assignment]
    isotp.tools.time = tm  # type: ignore[assignment]
    rng = random.Random(sched_seed)
    rx_id, tx_id = cfg["rx_id"], cfg["tx_id"]
    ext = rx_id > 0x7FF or tx_id > 0x7FF
    mode = isotp.AddressingMode.Normal_29bits if ext else isotp.AddressingMode.Normal_11bits
    fault_map: Dict[int, str] = {int(f[0]): f[1] for f in faults}

    pending: Dict[str, List[Tuple[int, bytes]]] = {"tester": [], "ecu": [], "nut": []}
    inbox: Dict[str, List[Any]] = {"tester": [], "ecu": []}

    def mk_stack(name: str, txid: int, rxid: int):
        def rxfn(timeout: float):
            q = inbox[name]
            return q.pop(0) if q else None

        def txfn(msg) -> None:
            pending[name].append((msg.arbitration_id, bytes(msg.data)))

        def on_error(err) -> None:
            res.stack_errors.append((name, type(err).__name__))

        params = {
            "stmin": cfg.get("stmin", 0), "blocksize": cfg.get("blocksize", 8),
            "tx_data_length": cfg.get("tx_dl", 8), "tx_padding": cfg.get("padding"),
            "can_fd": cfg.get("tx_dl", 8) > 8, "rx_flowcontrol_timeout": 1000,
            "rx_consecutive_frame_timeout": 1000, "wait_func": tm.sleep,
        }
        if cfg.get("tx_dl", 8) > 8:
            params["tx_data_min_length"] = 8
        st = isotp.TransportLayerLogic(rxfn=rxfn, txfn=txfn,
                                       address=isotp.Address(mode, txid=txid, rxid=rxid),
                                       error_handler=on_error, params=params)
        return st

    tester = mk_stack("tester", rx_id, tx_id)
    ecu = mk_stack("ecu", tx_id, rx_id) if cfg["mode"] == "snoop" else None
    res.received_by_stacks = {"tester": [], "ecu": []}

    # the node under test
    import odxtools.isotp_state_machine as ism
    SimBus = W.make_bus_class()
    cur = [0]

    def on_send(msg) -> None:
        res.sent_by_nut.append((cur[0], W.wire_id(msg), bytes(msg.data)))
        pending["nut"].append((W.wire_id(msg), bytes(msg.data)))

    bus = SimBus(lambda: None, on_send)
    kind = cfg.get("kind", "passive")
    if cfg["mode"] == "active":
        args: Dict[str, Any] = dict(can_bus=bus, can_rx_ids=[rx_id], can_tx_ids=[tx_id],
                                    padding_size=cfg.get("nut_padding", 0))
        base = ism.IsoTpActiveDecoder
    else:
        args = dict(can_rx_ids=[rx_id, tx_id])
        base = ism.IsoTpStateMachine
    if kind.startswith("v"):
        from odxtools.cli import snoop
        sm = snoop.init_verbose_state_machine(base, **args)
    else:
        sm = base(**args)

    todo = {"req": [bytes.fromhex(t[1]) for t in telegrams if t[0] == "req"],
            "rsp": [bytes.fromhex(t[1]) for t in telegrams if t[0] == "rsp"]}
    # telegrams marked "final" (3rd field) are only handed to the stacks once all faults
    # have fired or can no longer fire (recovery clause)
    n_final = {"req": sum(1 for t in telegrams if t[0] == "req" and len(t) > 2 and t[2] == "final"),
               "rsp": sum(1 for t in telegrams if t[0] == "rsp" and len(t) > 2 and t[2] == "final")}
    last_fault = max(fault_map) if fault_map else -1

    def may_submit(direction: str) -> bool:
        if len(todo[direction]) > n_final[direction]:
            return True
        if res.bus_n > last_fault:
            return True
        others_busy = tester.transmitting() or (ecu is not None and ecu.transmitting()) or any(pending.values())
        more = any(len(todo[d]) > n_final[d] for d in todo)
        if not others_busy and not more:
            # nothing is left that the remaining faults could hit: the faults stop here
            fault_map.clear()
            return True
        return False
    tick = cfg.get("tick", 0.0002)
    idle_steps = 0
    try:
        with W.quiet():
            while res.steps < max_steps:
                res.steps += 1
                # workload: hand the next telegram to an idle stack
                if todo["req"] and not tester.transmitting() and may_submit("req"):
                    tester.send(bytearray(todo["req"].pop(0)))
                if ecu is not None and todo["rsp"] and not ecu.transmitting() and may_submit("rsp"):
                    ecu.send(bytearray(todo["rsp"].pop(0)))
                tester.process()
                if ecu is not None:
                    ecu.process()
                    while ecu.available():
                        res.received_by_stacks["ecu"].append(bytes(ecu.recv()))
                while tester.available():
                    res.received_by_stacks["tester"].append(bytes(tester.recv()))
                # the bus: one pending frame wins arbitration per tick (seeded)
                live = [n for n in ("tester", "ecu", "nut") if pending[n]]
                if live:
                    idle_steps = 0
                    src = live[0] if len(live) == 1 else rng.choice(live)
                    fid, data = pending[src].pop(0)
                    ordinal = res.bus_n
                    res.bus_n += 1
                    fault = fault_map.get(ordinal)
                    copies = 1
                    if fault == "drop":
                        copies = 0
                        res.faults_fired["drop"] = res.faults_fired.get("drop", 0) + 1
                    elif fault == "dup":
                        copies = 2
                        res.faults_fired["dup"] = res.faults_fired.get("dup", 0) + 1
                    for _ in range(copies):
                        k = len(res.delivered)
                        res.delivered.append((fid, data, src))
                        msg = isotp.CanMessage(arbitration_id=fid, dlc=len(data), data=bytearray(data),
                                               extended_id=fid > 0x7FF, is_fd=len(data) > 8)
                        if src != "tester":
                            inbox["tester"].append(msg)
                        if src != "ecu" and ecu is not None:
                            inbox["ecu"].append(msg)
                        if src != "nut":
                            cur[0] = k
                            try:
                                for rid, payload in sm.decode_rx_frame(fid, bytes(data)):
                                    res.reports.append((k, rid, bytes(payload)))
                            except Exception as e:  # noqa: BLE001
                                res.raised = (k, e)
                                raise StopIteration
                else:
                    idle_steps += 1
                clock.advance(tick)
                busy = tester.transmitting() or (ecu is not None and ecu.transmitting()) or any(
                    pending.values()) or any(inbox.values())
                if not todo["req"] and not todo["rsp"] and not busy and idle_steps > 20:
                    res.completed = True
                    break
    except StopIteration:
        pass
    finally:
        isotp.protocol.time, isotp.tools.time = old_pt, old_tt
        W.shut(bus)
    return res
