"""One integer decides everything.

Every choice made in a simulated run is drawn from a named sub-stream of the run
seed.  Nothing here (or anywhere in vsim) uses hash(), id() ordering or set
iteration order to reach a decision, so PYTHONHASHSEED cannot matter.
"""
import hashlib
import random
from typing import Any, List, Sequence, TypeVar

T = TypeVar("T")


def h64(*parts: Any) -> int:
    s = "|".join(str(p) for p in parts).encode()
    return int.from_bytes(hashlib.blake2b(s, digest_size=8).digest(), "big")


def run_seed(prop: str, batch_seed: int, index: int) -> int:
    return h64("run", prop, batch_seed, index)


class Streams:
    """Named PRNG sub-streams of one run seed."""

    def __init__(self, seed: int):
        self.seed = seed
        self._cache = {}

    def rng(self, label: str) -> random.Random:
        r = self._cache.get(label)
        if r is None:
            r = random.Random(h64("stream", self.seed, label))
            self._cache[label] = r
        return r


def weighted(rng: random.Random, items: Sequence[T], weights: Sequence[float]) -> T:
    return rng.choices(list(items), weights=list(weights), k=1)[0]


def subset(rng: random.Random, items: Sequence[T], p: float = 0.5, at_least: int = 0) -> List[T]:
    out = [x for x in items if rng.random() < p]
    if len(out) < at_least:
        rest = [x for x in items if x not in out]
        rng.shuffle(rest)
        out += rest[:at_least - len(out)]
        out = [x for x in items if x in out]
    return out
