"""Canonical event log of one simulated run and its digest.

Logging never draws from a PRNG and never reads a real clock.  Exception messages
are never logged (odxtools formats sets into messages); exception type and raising
site are.
"""
import hashlib
import json
import os
import traceback
from typing import Any, Dict, List, Optional


def canon(obj: Any) -> Any:
    """Turn arbitrary result objects into something JSON-stable."""
    if obj is None or isinstance(obj, (bool, int, str)):
        return obj
    if isinstance(obj, float):
        return repr(obj)
    if isinstance(obj, (bytes, bytearray)):
        return "hex:" + bytes(obj).hex()
    if isinstance(obj, dict):
        return {str(k): canon(v) for k, v in obj.items()}
    if isinstance(obj, (list, tuple)):
        return [canon(x) for x in obj]
    if isinstance(obj, (set, frozenset)):
        return sorted((canon(x) for x in obj), key=lambda x: json.dumps(x, sort_keys=True))
    if hasattr(obj, "name") and hasattr(obj, "value") and obj.__class__.__module__ != "builtins":
        try:
            return f"enum:{obj.__class__.__name__}.{obj.name}"
        except Exception:
            pass
    return f"obj:{obj.__class__.__name__}"


class EventLog:

    def __init__(self, keep: int = 400):
        self.seq = 0
        self._h = hashlib.sha256()
        self.keep = keep
        self.events: List[Dict[str, Any]] = []

    def ev(self, actor: str, kind: str, data: Any = None, t: float = 0.0) -> None:
        rec = {"seq": self.seq, "t": round(t, 9), "actor": actor, "kind": kind, "data": canon(data)}
        self._h.update(json.dumps(rec, sort_keys=True, separators=(",", ":")).encode())
        if len(self.events) < self.keep:
            self.events.append(rec)
        self.seq += 1

    def digest(self) -> str:
        return self._h.hexdigest()


def exc_site(exc: BaseException, pkg: str = "odxtools") -> str:
    """Innermost frame inside the package under test: file basename + function name.

    No line numbers (so semantics-preserving edits do not change signatures)."""
    tb = exc.__traceback__
    site: Optional[str] = None
    for fs in traceback.extract_tb(tb):
        fn = fs.filename.replace("\\", "/")
        if f"/{pkg}/" in fn:
            rel = fn.split(f"/{pkg}/", 1)[1]
            if rel == "exceptions.py" and site is not None:
                # odxraise/odxassert/odxrequire: the site is their caller
                if not site.endswith("[odxraise]"):
                    site += "[odxraise]"
                continue
            site = f"{rel}:{fs.name}"
    if site is None:
        frames = traceback.extract_tb(tb)
        if frames:
            fs = frames[-1]
            site = f"<{os.path.basename(fs.filename)}>:{fs.name}"
        else:
            site = "<none>"
    return site


def exc_sig(exc: BaseException) -> Dict[str, str]:
    return {"exc": type(exc).__name__, "site": exc_site(exc)}
