"""Parent side: seeded search over many simulated runs, minimisation, replay, evidence.

The parent never imports odxtools; one worker pool per process-level knob combination
imports the tree under test after applying its knobs.
"""
import concurrent.futures as cf
import hashlib
import importlib
import json
import multiprocessing
import os
import subprocess
import sys
import time
from typing import Any, Dict, List, Optional, Tuple

from . import worker
from .seeds import run_seed

VERIF_DIR = os.path.dirname(os.path.dirname(os.path.dirname(os.path.abspath(__file__))))
EXIT_OK, EXIT_VIOLATION, EXIT_HARNESS = 0, 1, 2


class HarnessError(Exception):
    pass


def load_meta(prop: str):
    return importlib.import_module(worker.PROP_MODULES[prop])


def load_known_findings() -> List[Dict[str, Any]]:
    p = os.path.join(VERIF_DIR, "known_findings.json")
    if not os.path.exists(p):
        return []
    with open(p) as f:
        return json.load(f)


def finding_matches(entry: Dict[str, Any], prop: str, v: Dict[str, Any]) -> bool:
    if entry.get("property") != prop or entry.get("status") != "known":
        return False
    sig = entry.get("signature", {})
    if sig.get("oracle") != v["oracle"]:
        return False
    vs = v.get("sig", {})
    for k, val in sig.items():
        if k == "oracle":
            continue
        if str(vs.get(k)) != str(val):
            return False
    return True


class Pools:

    def __init__(self, prop: str, repo: str, pool_knobs: List[Dict[str, Any]], workers: int):
        self.prop = prop
        self.pools: List[cf.ProcessPoolExecutor] = []
        self.sizes: List[int] = []
        ctx = multiprocessing.get_context("fork")
        per = max(1, workers // len(pool_knobs))
        for kn in pool_knobs:
            self.pools.append(
                cf.ProcessPoolExecutor(
                    max_workers=per, mp_context=ctx, initializer=worker.init_worker,
                    initargs=(repo, kn, prop)))
            self.sizes.append(per)

    def shutdown(self, kill: bool = False) -> None:
        for p in self.pools:
            if kill:
                for proc in list(getattr(p, "_processes", {}).values()):
                    try:
                        proc.kill()
                    except Exception:
                        pass
            p.shutdown(wait=not kill, cancel_futures=True)


def merge_chunk(total: Dict[str, Any], agg: Dict[str, Any], pool_idx: int) -> None:
    for key in ("counters", "faults", "probes"):
        d = total.setdefault(key, {})
        for k, v in agg.get(key, {}).items():
            d[k] = d.get(k, 0) + v
    total["runs"] = total.get("runs", 0) + agg.get("runs", 0)
    total["sim_time"] = total.get("sim_time", 0.0) + agg.get("sim_time", 0.0)
    total.setdefault("states", set()).update(agg.get("states", ()))
    total.setdefault("scheds", set()).update(agg.get("scheds", ()))
    total.setdefault("digests", set()).update(agg.get("digests", ()))
    for k, v in agg.get("sets", {}).items():
        total.setdefault("sets", {}).setdefault(k, set()).update(v)
    if agg.get("cross"):
        # deterministic whatever the completion order of the chunks: the outcome of the run with the
        # smallest index represents the key; keys with more than one outcome are the conflicts
        d = total.setdefault("cross", {}).setdefault(pool_idx, {})
        alt = total.setdefault("cross_outcomes", {}).setdefault(pool_idx, {})
        for k, val in agg["cross"].items():
            val = tuple(val)
            if k not in d:
                d[k] = val
            else:
                if d[k][0] != val[0]:
                    alt.setdefault(k, {d[k][0]}).add(val[0])
                if val[1] < d[k][1]:
                    d[k] = val
    for c in agg.get("cross_conflicts", []):
        total.setdefault("cross_conflict_keys", set()).add((pool_idx, c[0]))
    total.setdefault("digest_by_index", {}).update(agg.get("digest_by_index", {}))
    total["samples"] = sorted(total.get("samples", []) + agg.get("samples", []), key=lambda x: x.get("index", 0))[:3]
    viols = total.setdefault("violations", {})
    for key, ent in agg.get("violations", {}).items():
        ent = dict(ent)
        ent["pool"] = pool_idx
        cur = viols.get(key)
        if cur is None:
            viols[key] = ent
        else:
            cnt = cur["count"] + ent["count"]
            if (ent["index"], ent["run_seed"]) < (cur["index"], cur["run_seed"]):
                viols[key] = ent
                cur = ent
            cur["count"] = cnt
            viols[key]["count"] = cnt
    pr = total.setdefault("runs_per_pool", {})
    pr[pool_idx] = pr.get(pool_idx, 0) + agg.get("runs", 0)


def fresh_digests(prop: str, repo: str, batch_seed: int, tier: str, indices: List[int],
                  hashseed: str) -> Dict[int, str]:
    env = dict(os.environ)
    env["PYTHONHASHSEED"] = hashseed
    cmd = [
        sys.executable, "-m", "vsim.cli", "digests", prop, "--tier", tier, "--seed",
        str(batch_seed), "--repo", repo, "--indices", ",".join(str(i) for i in indices)
    ]
    out = subprocess.run(cmd, cwd=VERIF_DIR, env=env, capture_output=True, text=True, timeout=600)
    if out.returncode != 0:
        raise HarnessError(f"fresh-interpreter digest run failed: {out.stderr[-2000:]}")
    last = out.stdout.strip().splitlines()[-1]
    return {int(k): v for k, v in json.loads(last).items()}


def sig_hash(key: str) -> str:
    return hashlib.blake2b(key.encode(), digest_size=5).hexdigest()


def write_replay(prop: str, meta, ent: Dict[str, Any], mini: Dict[str, Any], key: str,
                 batch_seed: int, tier: str, knobs: Dict[str, Any], repo: str) -> str:
    d = os.path.join(VERIF_DIR, "replays", prop)
    os.makedirs(d, exist_ok=True)
    path = os.path.join(d, f"{ent['run_seed']:016x}-{sig_hash(key)}.json")
    v = mini.get("violation", ent["v"])
    doc = {
        "property": prop,
        "run_seed": ent["run_seed"],
        "run_index": ent["index"],
        "batch_seed": batch_seed,
        "tier": tier,
        "knobs": knobs,
        "repo": repo,
        "violation": {"oracle": v["oracle"], "signature": v.get("sig", {}), "detail": v.get("detail"),
                      "key": key},
        "occurrences_in_batch": ent["count"],
        "trace": mini["trace"],
        # runs executed in the same process before the run of interest (only present when the violation
        # needs what they leave behind; replay executes them first, in this order)
        "history": mini.get("history", []),
        "minimised_history": {"before": mini.get("history_before"), "after": mini.get("history_after")},
        "minimised": {"before": mini.get("size_before"), "after": mini.get("size_after")},
        "log_digest": mini.get("digest"),
    }
    with open(path, "w") as f:
        json.dump(doc, f, indent=1, sort_keys=True, default=str)
    return path


def replay_in_fresh_process(path: str, repo: Optional[str] = None) -> Tuple[int, str]:
    cmd = [sys.executable, "-m", "vsim.cli", "replay", path]
    if repo:
        cmd += ["--repo", repo]
    env = dict(os.environ)
    env["PYTHONHASHSEED"] = "7"
    out = subprocess.run(cmd, cwd=VERIF_DIR, env=env, capture_output=True, text=True, timeout=900)
    return out.returncode, out.stdout + out.stderr


def check(prop: str, tier: str, batch_seed: int, repo: str, workers: int = 16,
          runs_override: Optional[int] = None, wall_override: Optional[float] = None,
          evidence: bool = True) -> int:
    t0 = time.time()
    meta = load_meta(prop)
    M = meta.META
    tcfg = dict(M["tiers"][tier])
    if runs_override is not None:
        tcfg["runs"] = runs_override
    if wall_override is not None:
        tcfg["wall"] = wall_override
    print(f"[verif] property={prop} tier={tier} VERIF_SEED={batch_seed} repo={repo} "
          f"runs<={tcfg['runs']} wall<={tcfg['wall']}s", flush=True)
    pool_knobs = M["pools"]
    pools = Pools(prop, repo, pool_knobs, workers)
    total: Dict[str, Any] = {}
    status = EXIT_OK
    try:
        # route run indices to pools
        chunk = tcfg.get("chunk", 100)
        per_pool: List[List[int]] = [[] for _ in pool_knobs]
        for i in range(tcfg["runs"]):
            per_pool[meta.pool_of(run_seed(prop, batch_seed, i), i)].append(i)
        queues = [[idx[j:j + chunk] for j in range(0, len(idx), chunk)] for idx in per_pool]
        self_idx = set(range(M.get("selftest_runs", 5)))
        inflight: Dict[cf.Future, int] = {}
        chunk_wall = tcfg.get("chunk_wall", 300.0)
        deadline = t0 + tcfg["wall"]
        truncated = False

        def submit_more() -> None:
            for pi, q in enumerate(queues):
                n_in = sum(1 for f, p in inflight.items() if p == pi)
                while q and n_in < pools.sizes[pi] * 2:
                    idxs = q.pop(0)
                    fut = pools.pools[pi].submit(worker.run_chunk, prop, batch_seed, tier, idxs,
                                                 bool(self_idx & set(idxs)), chunk_wall)
                    inflight[fut] = pi
                    n_in += 1

        submit_more()
        while inflight:
            done, _ = cf.wait(list(inflight), timeout=chunk_wall + 30,
                              return_when=cf.FIRST_COMPLETED)
            if not done:
                raise HarnessError("worker chunk exceeded its wall limit")
            for fut in done:
                pi = inflight.pop(fut)
                merge_chunk(total, fut.result(), pi)
            if time.time() < deadline:
                submit_more()
            elif any(queues):
                truncated = True
                queues = [[] for _ in queues]
        total["truncated_by_wall"] = truncated

        ck = set(total.get("cross_conflict_keys", ()))
        for pi_, alt_ in total.get("cross_outcomes", {}).items():
            ck.update((pi_, k_) for k_ in alt_)
        total["cross_conflicts"] = sorted(ck)
        # cross-pool oracle (C17: sibling interpreter with the opposite import-time flag)
        if hasattr(meta, "cross_check"):
            for v in meta.cross_check(total):
                key = worker.sig_key(v)
                total.setdefault("violations", {}).setdefault(
                    key, {"count": 0, "run_seed": v.get("run_seed", 0), "index": v.get("index", 0),
                          "v": v, "trace": v.get("trace"), "pool": v.get("pool", 0)})["count"] += 1

        # determinism self-test: the same seeds in a fresh interpreter, other hash seed
        dets = {"checked": 0, "mismatch": []}
        if M.get("selftest_runs", 5) > 0 and total.get("digest_by_index"):
            idxs = sorted(total["digest_by_index"])
            fresh = fresh_digests(prop, repo, batch_seed, tier, idxs, "4242")
            for i in idxs:
                dets["checked"] += 1
                if fresh.get(i) != total["digest_by_index"][i]:
                    dets["mismatch"].append(i)
            if dets["mismatch"]:
                raise HarnessError(f"determinism self-test mismatch for run indices {dets['mismatch']}")
        total["determinism"] = dets

        # violations: known findings vs new ones
        known = load_known_findings()
        new_viols: List[Tuple[str, Dict[str, Any]]] = []
        known_hits: Dict[int, int] = {}
        for key in sorted(total.get("violations", {})):
            ent = total["violations"][key]
            hit = None
            for n, e in enumerate(known):
                if finding_matches(e, prop, ent["v"]):
                    hit = n
                    break
            if hit is None:
                new_viols.append((key, ent))
            else:
                known_hits[hit] = known_hits.get(hit, 0) + ent["count"]
        for n, e in enumerate(known):
            if e.get("property") == prop and e.get("status") == "known":
                cnt = known_hits.get(n, 0)
                print(f"KNOWN-FINDING: property={prop} {e['what']} "
                      f"[signature={json.dumps(e['signature'], sort_keys=True)} "
                      f"occurrences_in_this_run={cnt}]", flush=True)
        focus = os.environ.get("VERIF_FOCUS")
        prio = getattr(meta, "replay_priority", None)
        # classes whose trace carries its own history (and therefore replays in a fresh interpreter) first
        new_viols.sort(key=lambda kv: ((focus not in kv[0]) if focus else False,
                                       prio(kv[1].get("trace")) if prio and kv[1].get("trace") else 0, kv[0]))
        replays: List[str] = []
        unconfirmed: List[str] = []
        reported_keys = set()
        max_report = M.get("max_reports", 6)
        for key, ent in new_viols[:max_report + 14]:
            if len(replays) >= max_report or (len(unconfirmed) >= 8 and not replays and len(unconfirmed) >= 14):
                break
            pi = ent["pool"]
            if ent.get("trace") is None:
                raise HarnessError(f"violation {key} has no trace")
            mini = pools.pools[pi].submit(worker.minimise, prop, ent["trace"], key,
                                          tcfg.get("shrink_wall", 600.0), tier, batch_seed).result(
                                              timeout=tcfg.get("shrink_wall", 600.0) + 30)
            if not mini.get("shrunk"):
                # the worker that found it cannot reproduce it any more: the violation depends on process
                # history (e.g. a cache poisoned by the run itself). The fresh-interpreter replay below is
                # the authority; the trace is reported unminimised.
                if ent["trace"].get("kind") == "cross-unresolved":
                    unconfirmed.append(f"violation {key} could not be resolved: {mini.get('note')}")
                    continue
                mini = None
                if ent.get("chunk") and ent["index"] in ent["chunk"]:
                    print(f"[verif] note: {key} does not reproduce from its own trace in a pristine process; "
                          f"searching the history of its chunk", flush=True)
                    mh = pools.pools[pi].submit(worker.minimise_history, prop, batch_seed, tier, ent["chunk"],
                                                ent["index"], key, tcfg.get("shrink_wall", 600.0)).result(
                                                    timeout=tcfg.get("shrink_wall", 600.0) + 30)
                    if mh.get("shrunk"):
                        mini = mh
                    else:
                        print(f"[verif] note: {mh.get('note')}", flush=True)
                if mini is None:
                    mini = {"trace": ent["trace"], "violation": ent["v"], "size_before": None,
                            "size_after": None, "digest": None, "key": key}
            key = mini.get("key", key)
            if key in reported_keys:
                continue
            reported_keys.add(key)
            path = write_replay(prop, meta, ent, mini, key, batch_seed, tier, pool_knobs[pi], repo)
            rc, out = replay_in_fresh_process(path, repo)
            if rc != EXIT_VIOLATION:
                # never reported as VIOLATION; a harness failure unless a confirmed violation explains it
                unconfirmed.append(f"violation {key} did not replay from {path} (rc={rc}):\n{out[-1500:]}")
                continue
            replays.append(path)
            print(f"[verif] violation oracle={ent['v']['oracle']} sig={json.dumps(ent['v'].get('sig', {}), sort_keys=True)} "
                  f"occurrences={ent['count']} first_run_index={ent['index']} "
                  f"minimised {mini.get('size_before')}->{mini.get('size_after')}"
                  + (f" history {mini.get('history_before')}->{mini.get('history_after')} runs"
                     if mini.get("history") is not None and mini.get("history_before") is not None else ""),
                  flush=True)
            print(f"[verif]   detail: {json.dumps(ent['v'].get('detail'))[:600]}", flush=True)
            print(f"VIOLATION property={prop} replay={path}", flush=True)
            status = EXIT_VIOLATION
        if unconfirmed:
            if status != EXIT_VIOLATION and not known_hits:
                raise HarnessError(unconfirmed[0])
            print(f"[verif] note: {len(unconfirmed)} further violation class(es) did not replay in a fresh interpreter "
                  f"(outcome depends on process history) and are not reported", flush=True)
            for u in unconfirmed[:4]:
                print("[verif] note:   " + u.replace("\n", " | ")[:700], flush=True)
        if len(new_viols) > max_report:
            print(f"[verif] {len(new_viols) - max_report} further violation classes not minimised:", flush=True)
            for k, e in new_viols[max_report:max_report + 300]:
                print(f"[verif]   class {k} occurrences={e['count']} first_run_index={e['index']}", flush=True)
        if total.get("cross_conflicts"):
            # identical (operation, flag) pairs with different outcomes in workers with identical knobs:
            # outcomes depend on process history. If a violation with a replayable trace explains it, that
            # is the verdict; unexplained, it is a harness-level failure (never exit 0).
            print(f"[verif] note: {len(total['cross_conflicts'])} (operation, flag) outcomes differ between "
                  f"workers with identical knobs (history dependence across runs)", flush=True)
            if not new_viols and not known_hits:
                raise HarnessError("outcomes depend on process history but no run reported a violation: "
                                   f"{total['cross_conflicts'][:5]}")
        total["new_violation_classes"] = len(replays) + max(0, len(new_viols) - (max_report + 14)) if replays else 0
        total["unconfirmed_classes"] = len(unconfirmed)
        total["known_hits"] = {known[n]["what"]: c for n, c in known_hits.items()}
    except HarnessError as e:
        print(f"[verif] HARNESS ERROR: {e}", flush=True)
        pools.shutdown(kill=True)
        return EXIT_HARNESS
    except cf.process.BrokenProcessPool as e:
        print(f"[verif] HARNESS ERROR: a worker died: {e}", flush=True)
        pools.shutdown(kill=True)
        return EXIT_HARNESS
    except cf.TimeoutError:
        print("[verif] HARNESS ERROR: wall-time limit hit in minimisation", flush=True)
        pools.shutdown(kill=True)
        return EXIT_HARNESS
    except Exception as e:  # noqa: BLE001 - an exception of the machinery is never a verdict
        import traceback
        traceback.print_exc()
        print(f"[verif] HARNESS ERROR: {type(e).__name__}: {e}", flush=True)
        pools.shutdown(kill=True)
        return EXIT_HARNESS
    pools.shutdown()
    wall = time.time() - t0
    if evidence:
        write_evidence(prop, meta, tier, batch_seed, total, wall, status)
    runs = total.get("runs", 0)
    print(f"[verif] property={prop} runs={runs} wall={wall:.1f}s runs/hour={runs / max(wall, 1e-9) * 3600:.0f} "
          f"distinct_nontrivial={len(total.get('digests', ()))} states={len(total.get('states', ()))} "
          f"new_violation_classes={total.get('new_violation_classes', 0)} -> exit {status}", flush=True)
    return status


def write_evidence(prop: str, meta, tier: str, batch_seed: int, total: Dict[str, Any], wall: float,
                   status: int) -> None:
    M = meta.META
    runs = total.get("runs", 0)
    samples = total.get("samples", [])
    if not samples:
        samples = [{"note": "no non-trivial run produced a sample"}]
    cov: Dict[str, Any] = {
        "evaluations": runs,
        "distinct_nontrivial": len(total.get("digests", ())),
        "rule": M["rule"],
        "samples": samples,
        "exhaustive": False,
        "simulated_runs": runs,
        "runs_per_hour": int(runs / max(wall, 1e-9) * 3600),
        "seeds_per_hour": int(runs / max(wall, 1e-9) * 3600),
        "simulated_seconds": round(total.get("sim_time", 0.0), 6),
        "simulated_time_note": M.get("sim_time_note", ""),
        "fault_kinds_fired": dict(sorted(total.get("faults", {}).items())),
        "probes": dict(sorted(total.get("probes", {}).items())),
        "counters": dict(sorted(total.get("counters", {}).items())),
        "distinct_schedule_signatures": len(total.get("scheds", ())),
        "distinct_abstract_states": len(total.get("states", ())),
        "state_measure": M.get("state_measure", ""),
        "distinct_sets": {k: len(v) for k, v in sorted(total.get("sets", {}).items())},
        "components": M.get("components", {}),
        "process_knob_pools": [{"knobs": k, "runs": total.get("runs_per_pool", {}).get(i, 0)}
                               for i, k in enumerate(M["pools"])],
        "determinism_selftest": total.get("determinism", {}),
        "truncated_by_wall": total.get("truncated_by_wall", False),
        "known_findings_hit": total.get("known_hits", {}),
        "new_violation_classes": total.get("new_violation_classes", 0),
        "classes_not_replayable_in_fresh_interpreter": total.get("unconfirmed_classes", 0),
    }
    if hasattr(meta, "evidence_extra"):
        cov.update(meta.evidence_extra(total))
    doc = {
        "property_id": prop,
        "tier": tier,
        "seed": batch_seed,
        "level": M["level"],
        "coverage": cov,
        "assumptions": M.get("assumptions", []),
        "wall_s": round(wall, 3),
        "violations": total.get("new_violation_classes", 0),
    }
    d = os.path.join(VERIF_DIR, "evidence")
    os.makedirs(d, exist_ok=True)
    tmp = os.path.join(d, f".{prop}.json.tmp")
    with open(tmp, "w") as f:
        json.dump(doc, f, indent=1, sort_keys=True, default=str)
    os.replace(tmp, os.path.join(d, f"{prop}.json"))
