"""Trace minimisation helpers (ddmin and friends).

All of them are deterministic: candidates are tried in a fixed order and the
predicate is a pure function of the concrete trace.
"""
from typing import Callable, List, Sequence, TypeVar

T = TypeVar("T")


class ShrinkBudget:

    def __init__(self, max_tests: int = 3000):
        self.max_tests = max_tests
        self.tests = 0

    def spent(self) -> bool:
        return self.tests >= self.max_tests


def ddmin_list(items: Sequence[T], test: Callable[[List[T]], bool], budget: ShrinkBudget,
               min_len: int = 0) -> List[T]:
    """Classic ddmin: returns a (1-)minimal sublist for which test() is still True."""
    cur = list(items)
    n = 2
    while len(cur) > min_len and not budget.spent():
        chunk = max(1, len(cur) // n)
        reduced = False
        # try removing each chunk
        i = 0
        while i < len(cur) and not budget.spent():
            cand = cur[:i] + cur[i + chunk:]
            if len(cand) >= min_len and len(cand) < len(cur):
                budget.tests += 1
                if test(cand):
                    cur = cand
                    reduced = True
                    n = max(n - 1, 2)
                    continue
            i += chunk
        if not reduced:
            if chunk == 1:
                break
            n = min(len(cur), n * 2)
    return cur


def shrink_each(items: Sequence[T], simpler: Callable[[T], List[T]],
                test: Callable[[List[T]], bool], budget: ShrinkBudget) -> List[T]:
    """Replace single elements by simpler variants while test() stays True."""
    cur = list(items)
    changed = True
    rounds = 0
    while changed and not budget.spent() and rounds < 4:
        changed = False
        rounds += 1
        for i in range(len(cur)):
            for alt in simpler(cur[i]):
                if budget.spent():
                    break
                if alt == cur[i]:
                    continue
                cand = cur[:i] + [alt] + cur[i + 1:]
                budget.tests += 1
                if test(cand):
                    cur = cand
                    changed = True
                    break
    return cur


def simpler_ints(v: int, lo: int = 0) -> List[int]:
    out = []
    for c in (lo, lo + 1, v // 2, v - 1):
        if lo <= c < v and c not in out:
            out.append(c)
    return out
