"""Worker side: establishes the per-process knobs, imports the tree under test and runs
chunks of simulated runs.  The parent (driver) never imports odxtools.
"""
import faulthandler
import importlib
import importlib.util
import os
import sys
import types
from typing import Any, Dict, List, Optional

from .seeds import run_seed

_STATE: Dict[str, Any] = {}

PROP_MODULES = {
    "C05": "vsim.props.c05",
    "C11": "vsim.props.c11",
    "C12": "vsim.props.c12",
    "C13": "vsim.props.c13",
    "C14": "vsim.props.c14",
    "C16": "vsim.props.c16",
    "C17": "vsim.props.c17",
}


def _fake_version_module() -> None:
    m = types.ModuleType("odxtools.version")
    m.__version__ = "0.0.0+verif"  # type: ignore[attr-defined]
    m.version = m.__version__  # type: ignore[attr-defined]
    m.__version_tuple__ = (0, 0, 0)  # type: ignore[attr-defined]
    m.version_tuple = (0, 0, 0)  # type: ignore[attr-defined]
    sys.modules["odxtools.version"] = m


def import_tree(repo: str, knobs: Dict[str, Any]) -> None:
    """Apply process-level knobs and import odxtools from `repo`."""
    repo = os.path.realpath(repo)
    if "odxtools" in sys.modules:
        raise RuntimeError("odxtools was imported before the knobs were applied")
    if knobs.get("backend") == "py":
        # import-fault injection: the C extension of bitstruct is unavailable
        sys.modules["bitstruct.c"] = None  # type: ignore[assignment]
    sys.path.insert(0, repo)
    pkg_dir = os.path.join(repo, "odxtools")
    if not os.path.exists(os.path.join(pkg_dir, "version.py")):
        _fake_version_module()
    if knobs.get("optimize"):
        # environment knob: the interpreter runs with -O. sys.flags cannot be changed in a
        # forked worker, so the modules of the tree under test are compiled the way -O
        # compiles them (assert statements and `if __debug__:` blocks are dropped); cached
        # byte code is bypassed for them.
        import importlib.machinery as im
        orig_get_code = im.SourceFileLoader.get_code
        prefix = pkg_dir + os.sep
        level = int(knobs["optimize"])

        def get_code(self, fullname):  # type: ignore[no-untyped-def]
            path = self.get_filename(fullname)
            if os.path.realpath(path).startswith(prefix):
                return compile(self.get_data(path), path, "exec", dont_inherit=True, optimize=level)
            return orig_get_code(self, fullname)

        im.SourceFileLoader.get_code = get_code  # type: ignore[method-assign]
    if "import_strict" in knobs:
        # staged import: make odxtools.exceptions importable before the package body
        # runs, set the flag, then execute the real __init__ inside the shell
        spec = importlib.util.spec_from_file_location(
            "odxtools", os.path.join(pkg_dir, "__init__.py"), submodule_search_locations=[pkg_dir])
        assert spec is not None and spec.loader is not None
        shell = importlib.util.module_from_spec(spec)
        sys.modules["odxtools"] = shell
        exc = importlib.import_module("odxtools.exceptions")
        exc.strict_mode = bool(knobs["import_strict"])
        spec.loader.exec_module(shell)
    import odxtools  # noqa
    got = os.path.realpath(odxtools.__file__)
    if not got.startswith(pkg_dir + os.sep):
        raise RuntimeError(f"odxtools imported from {got}, expected under {pkg_dir}")
    _STATE["repo"] = repo
    _STATE["pkg_dir"] = pkg_dir
    _STATE["knobs"] = dict(knobs)


def pkg_dir() -> str:
    return _STATE["pkg_dir"]


def repo_dir() -> str:
    return _STATE["repo"]


def knobs() -> Dict[str, Any]:
    return _STATE.get("knobs", {})


def get_prop(prop: str):
    mod = _STATE.get(("mod", prop))
    if mod is None:
        mod = importlib.import_module(PROP_MODULES[prop])
        if hasattr(mod, "worker_init"):
            mod.worker_init()
        _STATE[("mod", prop)] = mod
    return mod


def init_worker(repo: str, knobs_: Dict[str, Any], prop: str, quiet: bool = True) -> None:
    faulthandler.enable()
    try:
        # a run that allocates without bound ends with MemoryError inside the run (judged by the oracle) instead
        # of the kernel killing the worker (harness error)
        import resource
        lim = 6 << 30
        soft, hard = resource.getrlimit(resource.RLIMIT_AS)
        if hard == resource.RLIM_INFINITY or hard > lim:
            resource.setrlimit(resource.RLIMIT_AS, (lim, hard))
    except Exception:  # noqa: BLE001 - not available: keep going without the guard
        pass
    if quiet:
        # odxtools warns on stderr / logging for many faulty inputs; silence to keep
        # the check output readable (never part of any oracle)
        import logging
        import warnings
        warnings.simplefilter("ignore")
        logging.disable(logging.CRITICAL)
    import_tree(repo, knobs_)
    get_prop(prop)


def merge_into(agg: Dict[str, Any], res: Dict[str, Any], rs: int, index: int, trace_fn) -> None:
    for key in ("counters", "faults", "probes"):
        d = agg.setdefault(key, {})
        for k, v in res.get(key, {}).items():
            d[k] = d.get(k, 0) + v
    agg["runs"] = agg.get("runs", 0) + 1
    agg["sim_time"] = agg.get("sim_time", 0.0) + res.get("sim_time", 0.0)
    agg.setdefault("states", set()).update(res.get("states", ()))
    agg.setdefault("scheds", set()).add(res.get("sched_sig", 0))
    if res.get("nontrivial"):
        agg.setdefault("digests", set()).add(int(res["digest"][:16], 16))
    for k, v in res.get("sets", {}).items():
        agg.setdefault("sets", {}).setdefault(k, set()).update(v)
    cr = res.get("cross")
    if cr:
        d = agg.setdefault("cross", {})
        for k, o in cr.items():
            if k not in d:
                if len(d) < 3_000_000:
                    d[k] = (o, index)
            elif d[k][0] != o:
                agg.setdefault("cross_conflicts", []).append((k, d[k][1], index))
    viols = agg.setdefault("violations", {})
    for v in res.get("violations", []):
        key = sig_key(v)
        ent = viols.get(key)
        if ent is None:
            viols[key] = {"count": 1, "run_seed": rs, "index": index, "v": v, "trace": trace_fn()}
        else:
            ent["count"] += 1


def sig_key(v: Dict[str, Any]) -> str:
    sig = v.get("sig", {})
    return v["oracle"] + "|" + "|".join(f"{k}={sig[k]}" for k in sorted(sig))


def in_child(fn, *args):
    """Run fn(*args) in a forked child of this (never used) template process and return its
    result.  Every chunk / minimisation / replay starts from the same process state (the
    imports and worker_init), so what a run sees of earlier runs is exactly the prefix of its
    own chunk: process-wide residue (module-level caches, class attributes, ...) is part of
    the deterministic, replayable history instead of depending on which pool worker happened
    to execute which chunks."""
    import pickle
    import traceback
    r, w = os.pipe()
    sys.stdout.flush()
    sys.stderr.flush()
    pid = os.fork()
    if pid == 0:
        code = 0
        try:
            os.close(r)
            try:
                data = pickle.dumps(("ok", fn(*args)))
            except BaseException as e:  # noqa: BLE001
                data = pickle.dumps(("err", f"{type(e).__name__}: {e}\n{traceback.format_exc()}"))
            with os.fdopen(w, "wb") as f:
                f.write(data)
        except BaseException:  # noqa: BLE001
            code = 3
        finally:
            os._exit(code)
    os.close(w)
    chunks = []
    with os.fdopen(r, "rb") as f:
        while True:
            b = f.read(1 << 20)
            if not b:
                break
            chunks.append(b)
    _, st = os.waitpid(pid, 0)
    if not chunks:
        raise RuntimeError(f"chunk child died (wait status {st})")
    kind, val = pickle.loads(b"".join(chunks))
    if kind == "err":
        raise RuntimeError("exception in chunk child: " + val)
    return val


def run_chunk(prop: str, batch_seed: int, tier: str, indices: List[int], want_digests: bool,
              wall_limit: float) -> Dict[str, Any]:
    agg = in_child(_run_chunk, prop, batch_seed, tier, indices, want_digests, wall_limit)
    for ent in agg.get("violations", {}).values():
        ent["chunk"] = list(indices)
    return agg


def _run_chunk(prop: str, batch_seed: int, tier: str, indices: List[int], want_digests: bool,
               wall_limit: float) -> Dict[str, Any]:
    faulthandler.dump_traceback_later(wall_limit, exit=True)
    try:
        mod = get_prop(prop)
        _STATE["batch_seed"] = batch_seed
        agg: Dict[str, Any] = {"digest_by_index": {}, "samples": []}
        for i in indices:
            rs = run_seed(prop, batch_seed, i)
            trace = mod.gen(rs, i, tier)
            res = mod.execute(trace)
            merge_into(agg, res, rs, i, lambda: trace)
            if want_digests:
                agg["digest_by_index"][i] = res["digest"]
            if len(agg["samples"]) < 2 and res.get("nontrivial") and res.get("sample") is not None:
                agg["samples"].append({"index": i, "run_seed": rs, "sample": res["sample"]})
        # sets are not picklable across all versions identically; convert to sorted lists
        agg["states"] = sorted(agg.get("states", ()))
        agg["scheds"] = sorted(agg.get("scheds", ()))
        agg["digests"] = sorted(agg.get("digests", ()))
        agg["sets"] = {k: sorted(v) for k, v in agg.get("sets", {}).items()}
        return agg
    finally:
        faulthandler.cancel_dump_traceback_later()


def violation_matches(res: Dict[str, Any], key: str) -> Optional[Dict[str, Any]]:
    for v in res.get("violations", []):
        if sig_key(v) == key:
            return v
    return None


def minimise(prop: str, trace: Dict[str, Any], key: str, wall_limit: float, tier: str = "quick",
             batch_seed: int = 0) -> Dict[str, Any]:
    res = in_child(_minimise, prop, trace, key, wall_limit, tier, batch_seed)
    if res.get("shrunk") and _judge(prop, [], res["trace"], res.get("key", key)) is None:
        # The shrunk trace fails only because of what earlier candidates left behind in the child that
        # did the shrinking (the run itself creates process-wide residue): shrink again, every candidate
        # in its own pristine child.
        t0 = res.get("resolved", trace)
        res2 = _shrink_pristine(prop, [], t0, res.get("key", key), wall_limit)
        if res2.get("shrunk"):
            res2["history_before"] = res2["history_after"] = None
            return res2
        return {"trace": trace, "shrunk": False, "note": res2.get("note")}
    return res


def run_history(prop: str, history: List[Dict[str, Any]], trace: Dict[str, Any]) -> Dict[str, Any]:
    """Execute the predecessor runs and then the run of interest, in this process."""
    mod = get_prop(prop)
    for t in history:
        try:
            mod.execute(t)
        except Exception:  # noqa: BLE001 - a predecessor only matters for what it leaves behind
            pass
    return mod.execute(trace)


def _judge(prop: str, hist: List[Dict[str, Any]], t: Dict[str, Any], key: str):
    try:
        r = in_child(run_history, prop, hist, t)
    except Exception:  # noqa: BLE001
        return None
    v = violation_matches(r, key)
    return (v, r["digest"]) if v is not None else None


def _shrink_pristine(prop: str, preds: List[Dict[str, Any]], final: Dict[str, Any], key: str,
                     wall_limit: float) -> Dict[str, Any]:
    """Drop predecessors (ddmin) and shrink the final run while the same violation class persists;
    every candidate is judged in its own pristine child of the template process."""
    import time
    from .shrink import ShrinkBudget, ddmin_list
    t_end = time.time() + wall_limit * 0.8
    mod = get_prop(prop)
    if _judge(prop, preds, final, key) is None:
        return {"shrunk": False, "note": "violation did not reproduce from a pristine process"
                + (" and the history of its chunk" if preds else "")}
    budget = ShrinkBudget(400)
    n0 = len(preds)
    if preds:
        preds = ddmin_list(preds, lambda cand: time.time() < t_end and _judge(prop, cand, final, key) is not None,
                           budget)
    size0 = mod.trace_size(final) if hasattr(mod, "trace_size") else None
    if hasattr(mod, "shrink") and time.time() < t_end:
        calls = [0]

        def still_fails(t: Dict[str, Any]) -> bool:
            calls[0] += 1
            if calls[0] > 300 or time.time() > t_end:
                return False
            return _judge(prop, preds, t, key) is not None

        try:
            final = mod.shrink(final, still_fails)
        except Exception:  # noqa: BLE001
            pass
    got = _judge(prop, preds, final, key)
    if got is None:
        return {"shrunk": False, "note": "minimisation lost the violation"}
    return {"trace": final, "history": preds, "shrunk": True, "size_before": size0,
            "size_after": mod.trace_size(final) if hasattr(mod, "trace_size") else None,
            "history_before": n0, "history_after": len(preds), "violation": got[0], "digest": got[1],
            "key": key}


def minimise_history(prop: str, batch_seed: int, tier: str, chunk: List[int], index: int, key: str,
                     wall_limit: float) -> Dict[str, Any]:
    """The violation of run `index` needs what earlier runs of its chunk left behind in the
    process: reproduce it from a pristine child with the chunk prefix as history, then minimise."""
    _STATE["batch_seed"] = batch_seed
    mod = get_prop(prop)
    preds_idx = chunk[:chunk.index(index)]
    preds = [mod.gen(run_seed(prop, batch_seed, j), j, tier) for j in preds_idx]
    final = mod.gen(run_seed(prop, batch_seed, index), index, tier)
    return _shrink_pristine(prop, preds, final, key, wall_limit)


def _minimise(prop: str, trace: Dict[str, Any], key: str, wall_limit: float, tier: str = "quick",
              batch_seed: int = 0) -> Dict[str, Any]:
    """Shrink `trace` while the same violation class (oracle + signature) persists."""
    faulthandler.dump_traceback_later(wall_limit, exit=True)
    _STATE["batch_seed"] = batch_seed
    try:
        mod = get_prop(prop)
        if hasattr(mod, "resolve_cross") and trace.get("kind") == "cross-unresolved":
            # a violation found by the parent's cross-interpreter comparison: make it concrete
            oracle = key.split("|", 1)[0]
            t2 = mod.resolve_cross(trace, tier)
            if t2 is None:
                return {"trace": trace, "shrunk": False, "note": "cross violation could not be resolved"}
            r0 = mod.execute(t2)
            v0 = next((v for v in r0.get("violations", []) if v["oracle"] == oracle), None)
            if v0 is None:
                return {"trace": t2, "shrunk": False, "note": "cross violation did not reproduce"}
            trace, key = t2, sig_key(v0)

        def still_fails(t: Dict[str, Any]) -> bool:
            try:
                r = mod.execute(t)
            except Exception:
                return False
            return violation_matches(r, key) is not None

        if not still_fails(trace):
            return {"trace": trace, "shrunk": False, "note": "original trace did not reproduce"}
        size0 = mod.trace_size(trace) if hasattr(mod, "trace_size") else None
        if hasattr(mod, "shrink"):
            small = mod.shrink(trace, still_fails)
        else:
            small = trace
        r = mod.execute(small)
        v = violation_matches(r, key)
        if v is None:
            # not stable under re-execution in this (used) process: history-dependent
            return {"trace": trace, "shrunk": False, "note": "violation is not stable under re-execution in a used worker"}
        return {
            "trace": small,
            "resolved": trace,
            "shrunk": True,
            "size_before": size0,
            "size_after": mod.trace_size(small) if hasattr(mod, "trace_size") else None,
            "violation": v,
            "digest": r["digest"],
            "key": key,
        }
    finally:
        faulthandler.cancel_dump_traceback_later()


def execute_trace(prop: str, trace: Dict[str, Any]) -> Dict[str, Any]:
    mod = get_prop(prop)
    res = mod.execute(trace)
    res["states"] = sorted(res.get("states", ()))
    res["sets"] = {k: sorted(v) for k, v in res.get("sets", {}).items()}
    return res
