"""Worker side: establishes the per-process knobs, imports the tree under test and runs
chunks of simulated runs.  The parent (driver) never imports odxtools.
"""
import faulthandler
import importlib
import importlib.util
import os
import sys
import types
from typing import Any, Dict, List, Optional

from .seeds import run_seed

_STATE: Dict[str, Any] = {}

PROP_MODULES = {
    "C05": "vsim.props.c05",
    "C11": "vsim.props.c11",
    "C12": "vsim.props.c12",
    "C13": "vsim.props.c13",
    "C14": "vsim.props.c14",
    "C16": "vsim.props.c16",
    "C17": "vsim.props.c17",
}


def _fake_version_module() -> None:
    m = types.ModuleType("odxtools.version")
    m.__version__ = "0.0.0+verif"  # type: ignore[attr-defined]
    m.version = m.__version__  # type: ignore[attr-defined]
    m.__version_tuple__ = (0, 0, 0)  # type: ignore[attr-defined]
    m.version_tuple = (0, 0, 0)  # type: ignore[attr-defined]
    sys.modules["odxtools.version"] = m


def import_tree(repo: str, knobs: Dict[str, Any]) -> None:
    """Apply process-level knobs and import odxtools from `repo`."""
    repo = os.path.realpath(repo)
    if "odxtools" in sys.modules:
        raise RuntimeError("odxtools was imported before the knobs were applied")
    if knobs.get("backend") == "py":
        # import-fault injection: the C extension of bitstruct is unavailable
        sys.modules["bitstruct.c"] = None  # type: ignore[assignment]
    sys.path.insert(0, repo)
    pkg_dir = os.path.join(repo, "odxtools")
    if not os.path.exists(os.path.join(pkg_dir, "version.py")):
        _fake_version_module()
    if "import_strict" in knobs:
        # staged import: make odxtools.exceptions importable before the package body
        # runs, set the flag, then execute the real __init__ inside the shell
        spec = importlib.util.spec_from_file_location(
            "odxtools", os.path.join(pkg_dir, "__init__.py"), submodule_search_locations=[pkg_dir])
        assert spec is not None and spec.loader is not None
        shell = importlib.util.module_from_spec(spec)
        sys.modules["odxtools"] = shell
        exc = importlib.import_module("odxtools.exceptions")
        exc.strict_mode = bool(knobs["import_strict"])
        spec.loader.exec_module(shell)
    import odxtools  # noqa
    got = os.path.realpath(odxtools.__file__)
    if not got.startswith(pkg_dir + os.sep):
        raise RuntimeError(f"odxtools imported from {got}, expected under {pkg_dir}")
    _STATE["repo"] = repo
    _STATE["pkg_dir"] = pkg_dir
    _STATE["knobs"] = dict(knobs)


def pkg_dir() -> str:
    return _STATE["pkg_dir"]


def repo_dir() -> str:
    return _STATE["repo"]


def knobs() -> Dict[str, Any]:
    return _STATE.get("knobs", {})


def get_prop(prop: str):
    mod = _STATE.get(("mod", prop))
    if mod is None:
        mod = importlib.import_module(PROP_MODULES[prop])
        if hasattr(mod, "worker_init"):
            mod.worker_init()
        _STATE[("mod", prop)] = mod
    return mod


def init_worker(repo: str, knobs_: Dict[str, Any], prop: str, quiet: bool = True) -> None:
    faulthandler.enable()
    if quiet:
        # odxtools warns on stderr / logging for many faulty inputs; silence to keep
        # the check output readable (never part of any oracle)
        import logging
        import warnings
        warnings.simplefilter("ignore")
        logging.disable(logging.CRITICAL)
    import_tree(repo, knobs_)
    get_prop(prop)


def merge_into(agg: Dict[str, Any], res: Dict[str, Any], rs: int, index: int, trace_fn) -> None:
    for key in ("counters", "faults", "probes"):
        d = agg.setdefault(key, {})
        for k, v in res.get(key, {}).items():
            d[k] = d.get(k, 0) + v
    agg["runs"] = agg.get("runs", 0) + 1
    agg["sim_time"] = agg.get("sim_time", 0.0) + res.get("sim_time", 0.0)
    agg.setdefault("states", set()).update(res.get("states", ()))
    agg.setdefault("scheds", set()).add(res.get("sched_sig", 0))
    if res.get("nontrivial"):
        agg.setdefault("digests", set()).add(int(res["digest"][:16], 16))
    for k, v in res.get("sets", {}).items():
        agg.setdefault("sets", {}).setdefault(k, set()).update(v)
    cr = res.get("cross")
    if cr:
        d = agg.setdefault("cross", {})
        for k, o in cr.items():
            if k not in d:
                if len(d) < 3_000_000:
                    d[k] = (o, index)
            elif d[k][0] != o:
                agg.setdefault("cross_conflicts", []).append((k, d[k][1], index))
    viols = agg.setdefault("violations", {})
    for v in res.get("violations", []):
        key = sig_key(v)
        ent = viols.get(key)
        if ent is None:
            viols[key] = {"count": 1, "run_seed": rs, "index": index, "v": v, "trace": trace_fn()}
        else:
            ent["count"] += 1


def sig_key(v: Dict[str, Any]) -> str:
    sig = v.get("sig", {})
    return v["oracle"] + "|" + "|".join(f"{k}={sig[k]}" for k in sorted(sig))


def run_chunk(prop: str, batch_seed: int, tier: str, indices: List[int], want_digests: bool,
              wall_limit: float) -> Dict[str, Any]:
    faulthandler.dump_traceback_later(wall_limit, exit=True)
    try:
        mod = get_prop(prop)
        _STATE["batch_seed"] = batch_seed
        agg: Dict[str, Any] = {"digest_by_index": {}, "samples": []}
        for i in indices:
            rs = run_seed(prop, batch_seed, i)
            trace = mod.gen(rs, i, tier)
            res = mod.execute(trace)
            merge_into(agg, res, rs, i, lambda: trace)
            if want_digests:
                agg["digest_by_index"][i] = res["digest"]
            if len(agg["samples"]) < 2 and res.get("nontrivial") and res.get("sample") is not None:
                agg["samples"].append({"index": i, "run_seed": rs, "sample": res["sample"]})
        # sets are not picklable across all versions identically; convert to sorted lists
        agg["states"] = sorted(agg.get("states", ()))
        agg["scheds"] = sorted(agg.get("scheds", ()))
        agg["digests"] = sorted(agg.get("digests", ()))
        agg["sets"] = {k: sorted(v) for k, v in agg.get("sets", {}).items()}
        return agg
    finally:
        faulthandler.cancel_dump_traceback_later()


def violation_matches(res: Dict[str, Any], key: str) -> Optional[Dict[str, Any]]:
    for v in res.get("violations", []):
        if sig_key(v) == key:
            return v
    return None


def minimise(prop: str, trace: Dict[str, Any], key: str, wall_limit: float, tier: str = "quick",
             batch_seed: int = 0) -> Dict[str, Any]:
    """Shrink `trace` while the same violation class (oracle + signature) persists."""
    faulthandler.dump_traceback_later(wall_limit, exit=True)
    _STATE["batch_seed"] = batch_seed
    try:
        mod = get_prop(prop)
        if hasattr(mod, "resolve_cross") and trace.get("kind") == "cross-unresolved":
            # a violation found by the parent's cross-interpreter comparison: make it concrete
            oracle = key.split("|", 1)[0]
            t2 = mod.resolve_cross(trace, tier)
            if t2 is None:
                return {"trace": trace, "shrunk": False, "note": "cross violation could not be resolved"}
            r0 = mod.execute(t2)
            v0 = next((v for v in r0.get("violations", []) if v["oracle"] == oracle), None)
            if v0 is None:
                return {"trace": t2, "shrunk": False, "note": "cross violation did not reproduce"}
            trace, key = t2, sig_key(v0)

        def still_fails(t: Dict[str, Any]) -> bool:
            try:
                r = mod.execute(t)
            except Exception:
                return False
            return violation_matches(r, key) is not None

        if not still_fails(trace):
            return {"trace": trace, "shrunk": False, "note": "original trace did not reproduce"}
        size0 = mod.trace_size(trace) if hasattr(mod, "trace_size") else None
        if hasattr(mod, "shrink"):
            small = mod.shrink(trace, still_fails)
        else:
            small = trace
        r = mod.execute(small)
        v = violation_matches(r, key)
        if v is None:
            # not stable under re-execution in this (used) process: history-dependent
            return {"trace": trace, "shrunk": False, "note": "violation is not stable under re-execution in a used worker"}
        return {
            "trace": small,
            "shrunk": True,
            "size_before": size0,
            "size_after": mod.trace_size(small) if hasattr(mod, "trace_size") else None,
            "violation": v,
            "digest": r["digest"],
            "key": key,
        }
    finally:
        faulthandler.cancel_dump_traceback_later()


def execute_trace(prop: str, trace: Dict[str, Any]) -> Dict[str, Any]:
    mod = get_prop(prop)
    res = mod.execute(trace)
    res["states"] = sorted(res.get("states", ()))
    res["sets"] = {k: sorted(v) for k, v in res.get("sets", {}).items()}
    return res
