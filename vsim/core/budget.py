"""Deterministic instruction budget: a hang becomes a verdict, not a wall-clock timeout.

Counts PY_START and (backward or forward) JUMP events of code objects that live under
the package directory under test, using sys.monitoring (Python >= 3.12).  When the count
exceeds the armed limit the callback raises HangVerdict (a BaseException, so that no
`except Exception` in the code under test can swallow it).
"""
import sys
from typing import Optional


class HangVerdict(BaseException):
    pass


class InstrBudget:
    TOOL_ID = 4

    def __init__(self, pkg_dir: str):
        self.pkg_dir = pkg_dir.rstrip("/") + "/"
        self.count = 0
        self.limit: Optional[int] = None
        self.installed = False
        self.tripped = False

    def install(self) -> None:
        if self.installed:
            return
        mon = sys.monitoring
        mon.use_tool_id(self.TOOL_ID, "vsim-budget")
        E = mon.events
        mon.register_callback(self.TOOL_ID, E.PY_START, self._on_start)
        mon.register_callback(self.TOOL_ID, E.JUMP, self._on_jump)
        mon.set_events(self.TOOL_ID, E.PY_START | E.JUMP)
        self.installed = True

    def uninstall(self) -> None:
        if not self.installed:
            return
        mon = sys.monitoring
        mon.set_events(self.TOOL_ID, 0)
        mon.register_callback(self.TOOL_ID, mon.events.PY_START, None)
        mon.register_callback(self.TOOL_ID, mon.events.JUMP, None)
        mon.free_tool_id(self.TOOL_ID)
        self.installed = False

    def _tick(self, code):
        if not code.co_filename.startswith(self.pkg_dir):
            return sys.monitoring.DISABLE
        lim = self.limit
        if lim is None:
            return None
        self.count += 1
        if self.count > lim:
            self.limit = None
            self.tripped = True
            raise HangVerdict(f"instruction budget of {lim} events exhausted")
        return None

    def _on_start(self, code, offset):
        return self._tick(code)

    def _on_jump(self, code, src, dst):
        return self._tick(code)

    def arm(self, limit: int) -> None:
        self.count = 0
        self.tripped = False
        self.limit = limit

    def disarm(self) -> int:
        self.limit = None
        return self.count
