"""Process-environment variations applied per run (never by the code under test):
what a deployment may legitimately set before it calls the library."""
import contextlib
import warnings
from typing import Any, Dict, Iterator, Optional


@contextlib.contextmanager
def environment(env: Optional[Dict[str, Any]]) -> Iterator[None]:
    """env["warnings"] == "error": the interpreter-wide warning filter escalates every
    warning to an exception (python -W error, PYTHONWARNINGS=error, pytest's
    filterwarnings=error; odxtools' own pyproject.toml does it for DecodeError).
    The filter list and the per-module registries are restored afterwards."""
    mode = (env or {}).get("warnings")
    if mode != "error":
        yield
        return
    with warnings.catch_warnings():
        warnings.resetwarnings()
        warnings.simplefilter("error")
        yield
