"""The zoo: diagnostic layers built in /verif through the public dataclass API, covering
the parameter kinds, data-object kinds, coded types and compu categories of the envelope.

Each *shape* adds one service (request + positive response [+ negative response]) to a
LayerBuilder and records ground truth about it (is the coding object fixed-length, how
long) independently of the library's static-length functions.
"""
import random
from typing import Any, Callable, Dict, List, Optional, Tuple

from .mk import LayerBuilder, mk

Shape = Callable[[LayerBuilder, int, random.Random, Dict[str, Any]], None]


def _svc(b: LayerBuilder, sid: int, name: str, rq_params: List[Any], rs_params: List[Any],
         truth: Dict[str, Any], rq_len: Optional[int], rs_len: Optional[int], with_neg: bool = True) -> None:
    rq = b.request(f"rq_{name}", [b.coded_const("sid", sid)] + rq_params)
    rs = b.response(f"rs_{name}", [b.coded_const("sid", sid + 0x40)] + rs_params)
    neg = []
    if with_neg:
        ng = b.response(f"ng_{name}", [b.coded_const("sid", 0x7F), b.coded_const("rq_sid", sid),
                                       b.nrc_const("nrc", [0x11, 0x12, 0x22, 0x31])], "NEGATIVE")
        neg = [ng]
        truth[ng.short_name] = 3
    b.service(name, rq, [rs], neg)
    truth[rq.short_name] = None if rq_len is None else 1 + rq_len
    truth[rs.short_name] = None if rs_len is None else 1 + rs_len


def shape_ints(b: LayerBuilder, sid: int, r: random.Random, truth: Dict[str, Any]) -> None:
    n = f"ints{sid:02x}"
    bits = r.choice([8, 16, 24, 32])
    hilo = r.choice([None, True, False])
    enc_u = r.choice([None, "NONE", "BCD_P", "BCD_UP"])
    enc_i = r.choice([None, "TWOC", "ONEC", "SM"])
    du = b.dop(f"{n}_u", b.slt("A_UINT32", bits, enc_u, hilo))
    di = b.dop(f"{n}_i", b.slt("A_INT32", bits, enc_i, hilo))
    nib = b.dop(f"{n}_nib", b.slt("A_UINT32", 4))
    msk = b.dop(f"{n}_msk", b.slt("A_UINT32", 16, mask=r.choice([0x0FF0, 0xF00F, 0x7FFF]),
                                   condensed=r.choice([None, False])))
    B = bits // 8
    rq = [b.value("u", du), b.value("i", di)]
    rs = [b.value("lo", nib, byte_position=1, bit_position=0), b.value("hi", nib, byte_position=1, bit_position=4),
          b.value("m", msk, byte_position=2), b.value("u", du, byte_position=4)]
    _svc(b, sid, n, rq, rs, truth, 2 * B, 3 + B)


def shape_floats(b: LayerBuilder, sid: int, r: random.Random, truth: Dict[str, Any]) -> None:
    n = f"flt{sid:02x}"
    hilo = r.choice([None, True, False])
    f32 = b.dop(f"{n}_f32", b.slt("A_FLOAT32", 32, hilo=hilo))
    f64 = b.dop(f"{n}_f64", b.slt("A_FLOAT64", 64, hilo=hilo))
    lin = b.dop(f"{n}_lin", b.slt("A_UINT32", 8), compu=b.linear("A_UINT32", "A_FLOAT64", r.choice([0, -40, 1.5]),
                                                                   r.choice([0.5, 2, 0.1]), 1, lower="0", upper="200"))
    linint = b.dop(f"{n}_li", b.slt("A_INT32", 16), compu=b.linear("A_INT32", "A_INT32", r.choice([0, 10]),
                                                                    r.choice([1, 2, -3])))
    _svc(b, sid, n, [b.value("a", f32), b.value("k", lin)], [b.value("d", f64), b.value("li", linint)], truth,
         5, 10)


def shape_strings_fixed(b: LayerBuilder, sid: int, r: random.Random, truth: Dict[str, Any]) -> None:
    n = f"str{sid:02x}"
    asc = b.dop(f"{n}_asc", b.slt("A_ASCIISTRING", 8 * r.choice([1, 3, 4])))
    asc_iso = b.dop(f"{n}_iso", b.slt("A_ASCIISTRING", 16, encoding="ISO_8859_1"))
    utf = b.dop(f"{n}_utf", b.slt("A_UTF8STRING", 8 * r.choice([2, 4])))
    uni = b.dop(f"{n}_uni", b.slt("A_UNICODE2STRING", 16 * r.choice([1, 2]), hilo=r.choice([None, True, False])))
    raw = b.dop(f"{n}_raw", b.slt("A_BYTEFIELD", 8 * r.choice([1, 2, 5])))
    la = asc.diag_coded_type.bit_length // 8
    lu = utf.diag_coded_type.bit_length // 8
    l2 = uni.diag_coded_type.bit_length // 8
    lr = raw.diag_coded_type.bit_length // 8
    _svc(b, sid, n, [b.value("a", asc), b.value("r", raw)], [b.value("u", utf), b.value("w", uni), b.value("i", asc_iso)],
         truth, la + lr, lu + l2 + 2)


def shape_minmax(b: LayerBuilder, sid: int, r: random.Random, truth: Dict[str, Any]) -> None:
    n = f"mm{sid:02x}"
    term = r.choice(["ZERO", "HEX_FF", "END_OF_PDU"])
    base = r.choice(["A_BYTEFIELD", "A_ASCIISTRING", "A_UTF8STRING", "A_UNICODE2STRING"])
    mn = r.choice([0, 1, 2])
    mx = r.choice([None, mn + 2, 8])
    if base == "A_UNICODE2STRING":
        mn, mx = 2 * mn, (None if mx is None else 2 * mx)
    d = b.dop(f"{n}_d", b.minmax(base, mn, mx, term))
    u8 = b.dop(f"{n}_u8", b.slt(bits=8))
    eop = b.dop(f"{n}_eop", b.minmax("A_BYTEFIELD", 1, r.choice([None, 6]), "END_OF_PDU"))
    _svc(b, sid, n, [b.value("x", u8), b.value("s", d)], [b.value("s", d), b.value("tail", eop)], truth, None, None)


def shape_leading(b: LayerBuilder, sid: int, r: random.Random, truth: Dict[str, Any]) -> None:
    n = f"ll{sid:02x}"
    base = r.choice(["A_BYTEFIELD", "A_ASCIISTRING", "A_UTF8STRING", "A_UNICODE2STRING"])
    d = b.dop(f"{n}_d", b.leading(base, r.choice([8, 16, 4])))
    u8 = b.dop(f"{n}_u8", b.slt(bits=8))
    _svc(b, sid, n, [b.value("s", d), b.value("after", u8)], [b.value("s", d)], truth, None, None)


def shape_paramlen(b: LayerBuilder, sid: int, r: random.Random, truth: Dict[str, Any]) -> None:
    n = f"pl{sid:02x}"
    u8 = b.dop(f"{n}_len", b.slt(bits=8))
    lk = b.length_key("len", u8)
    d = b.dop(f"{n}_d", b.param_length(r.choice(["A_UINT32", "A_BYTEFIELD", "A_ASCIISTRING"]), lk))
    _svc(b, sid, n, [lk, b.value("v", d)], [b.value("echo", u8)], truth, None, 1)


def shape_texttable(b: LayerBuilder, sid: int, r: random.Random, truth: Dict[str, Any]) -> None:
    n = f"tt{sid:02x}"
    tt = b.dop(f"{n}_tt", b.slt(bits=8), compu=b.texttable("A_UINT32", [(0, 0, "off"), (1, 1, "on"),
                                                                        (2, 9, "dimmed"), (0x80, 0xFE, "auto")]))
    _svc(b, sid, n, [b.value("mode", tt)], [b.value("mode", tt), b.phys_const("fixed", tt, "on")], truth, 1, 2)


def shape_dtc(b: LayerBuilder, sid: int, r: random.Random, truth: Dict[str, Any]) -> None:
    n = f"dtc{sid:02x}"
    d = b.dtc_dop(f"{n}_d", b.slt(bits=24), [("low_voltage", 0x123456, "voltage low"), ("hot", 0x000102, "hot"),
                                               ("x", 0xFFFFFF, "x")])
    u8 = b.dop(f"{n}_u8", b.slt(bits=8))
    _svc(b, sid, n, [b.value("mask", u8)], [b.value("code", d), b.value("status", u8)], truth, 1, 4)
    truth.setdefault("examples", {})[f"rs_{n}"] = [bytes([sid + 0x40, 0x12, 0x34, 0x56, 1]).hex(),
                                                  bytes([sid + 0x40, 0x00, 0x01, 0x02, 0xFF]).hex()]


def shape_struct(b: LayerBuilder, sid: int, r: random.Random, truth: Dict[str, Any]) -> None:
    n = f"st{sid:02x}"
    u8 = b.dop(f"{n}_u8", b.slt(bits=8))
    u16 = b.dop(f"{n}_u16", b.slt(bits=16))
    inner = b.structure(f"{n}_inner", [b.value("a", u8), b.value("b", u16)])
    sized = b.structure(f"{n}_sized", [b.value("a", u8)], byte_size=r.choice([2, 4]))
    outer = b.structure(f"{n}_outer", [b.value("head", u8), b.value("in1", inner), b.reserved("gap", 8),
                                       b.value("in2", inner)])
    _svc(b, sid, n, [b.value("s", inner)], [b.value("o", outer), b.value("z", sized)], truth, 3, None)
    truth[f"rs_{n}"] = None  # BYTE-SIZE structure: not part of the fixed-length ground truth


def shape_fields(b: LayerBuilder, sid: int, r: random.Random, truth: Dict[str, Any]) -> None:
    n = f"fld{sid:02x}"
    u8 = b.dop(f"{n}_u8", b.slt(bits=8))
    u16 = b.dop(f"{n}_u16", b.slt(bits=16))
    item = b.structure(f"{n}_item", [b.value("k", u8), b.value("v", u16)])
    kind = r.choice(["static", "dynlen", "dynend", "eopdu"])
    if kind == "static":
        f = b.static_field(f"{n}_f", item, r.choice([1, 2, 3]), r.choice([3, 4]))
    elif kind == "dynlen":
        f = b.dynlen_field(f"{n}_f", item, u8, offset=1)
    elif kind == "dynend":
        f = b.dynend_field(f"{n}_f", item, u8, r.choice(["255", "0"]))
    else:
        f = b.eopdu_field(f"{n}_f", item, r.choice([None, 0, 1]), r.choice([None, 3]))
    eo = b.eopdu_field(f"{n}_eo", item)
    _svc(b, sid, n, [b.value("list", f)], [b.value("cnt", u8), b.value("rest", eo)], truth, None, None)


def shape_mux(b: LayerBuilder, sid: int, r: random.Random, truth: Dict[str, Any]) -> None:
    n = f"mux{sid:02x}"
    u8 = b.dop(f"{n}_u8", b.slt(bits=8))
    u16 = b.dop(f"{n}_u16", b.slt(bits=16))
    c1 = b.structure(f"{n}_c1", [b.value("x", u8)])
    c2 = b.structure(f"{n}_c2", [b.value("y", u16), b.value("z", u8)])
    dflt = r.choice([None, c1, "empty"])
    m = b.mux(f"{n}_m", u8, [("one", 1, 1, c1), ("two", 2, 5, c2), ("none", 9, 9, None)], default=dflt)
    _svc(b, sid, n, [b.value("sel", m)], [b.value("sel", m), b.value("after", u8)], truth, None, None)


def shape_table(b: LayerBuilder, sid: int, r: random.Random, truth: Dict[str, Any]) -> None:
    n = f"tab{sid:02x}"
    u8 = b.dop(f"{n}_u8", b.slt(bits=8))
    u16 = b.dop(f"{n}_u16", b.slt(bits=16))
    s1 = b.structure(f"{n}_s1", [b.value("p", u8)])
    s2 = b.structure(f"{n}_s2", [b.value("q", u16), b.value("r", u8)])
    t = b.table(f"{n}_t", u8, [("row_a", 1, s1), ("row_b", 2, s2), ("row_c", 7, u16)])
    key = b.table_key("key", t)
    _svc(b, sid, n, [b.value("which", u8)], [key, b.table_struct("row", key)], truth, 1, None)


def shape_misc(b: LayerBuilder, sid: int, r: random.Random, truth: Dict[str, Any]) -> None:
    n = f"misc{sid:02x}"
    u8 = b.dop(f"{n}_u8", b.slt(bits=8))
    u16 = b.dop(f"{n}_u16", b.slt(bits=16))
    rq = [b.value("id", u16), b.value("opt", u8, default="7")]
    rs = [b.matching_request("echo", 1, 2), b.reserved("rsv", 4, bit_position=0),
          b.value("flag", b.dop(f"{n}_b4", b.slt(bits=4)), byte_position=3, bit_position=4),
          b.phys_const("pc", u8, "42")]
    _svc(b, sid, n, rq, rs, truth, 3, 4)


def shape_envdata(b: LayerBuilder, sid: int, r: random.Random, truth: Dict[str, Any]) -> None:
    n = f"env{sid:02x}"
    u8 = b.dop(f"{n}_u8", b.slt(bits=8))
    dtc = b.dtc_dop(f"{n}_dtc", b.slt(bits=24), [("first_trouble", 0x112233, "first"), ("follow_up", 0x445566, "second"),
                                                   ("no_env", 0xF00DE5, "third (no specific environment data)")])
    edd = b.env_data_desc(f"{n}_edd", "DTC", [
        ("common", True, [], [b.value("odo", u8)]),
        ("for_first", None, [0x112233], [b.coded_const("c1", 0x01), b.value("temp", u8)]),
        ("for_second", None, [0x445566], [b.value("volt", u8), b.value("amp", u8)]),
    ])
    _svc(b, sid, n, [b.value("mask", u8)], [b.value("DTC", dtc), b.value("dtc_info", edd)], truth, 1, None)
    # valid PDUs cannot be found by random search (three specific 24-bit codes): give examples
    rsid = sid + 0x40
    truth.setdefault("examples", {})[f"rs_{n}"] = [
        bytes([rsid, 0x11, 0x22, 0x33, 9, 1, 0x55]).hex(), bytes([rsid, 0x44, 0x55, 0x66, 9, 7, 8]).hex(),
        bytes([rsid, 0xF0, 0x0D, 0xE5, 9]).hex()]


SHAPES: List[Tuple[str, Shape]] = [
    ("ints", shape_ints), ("floats", shape_floats), ("strings", shape_strings_fixed), ("minmax", shape_minmax),
    ("leading", shape_leading), ("paramlen", shape_paramlen), ("texttable", shape_texttable), ("dtc", shape_dtc),
    ("struct", shape_struct), ("fields", shape_fields), ("mux", shape_mux), ("table", shape_table),
    ("misc", shape_misc), ("envdata", shape_envdata),
]


def build_zoo_builder(seed: int, name: Optional[str] = None, n_shapes: Optional[int] = None,
                      container: Optional[str] = None) -> Tuple[LayerBuilder, Dict[str, Any], List[str]]:
    r = random.Random(seed * 7919 + 13)
    b = LayerBuilder(name or f"zoo{seed}", "ecu", container)
    truth: Dict[str, Any] = {}
    k = n_shapes or r.randint(4, 8)
    # every shape appears in some layer: rotate deterministically, then add random ones
    order = [SHAPES[(seed + i) % len(SHAPES)] for i in range(min(k, 3))]
    order += [r.choice(SHAPES) for _ in range(k - len(order))]
    used = []
    sid = 0x10 + (seed % 3)
    for sname, fn in order:
        fn(b, sid, r, truth)
        used.append(sname)
        sid += r.choice([1, 2])
    u8 = b.dop("gnr_u8", b.slt(bits=8))
    b.response("gnr", [b.coded_const("sid", 0x7F), b.value("rq_sid", u8), b.coded_const("nrc", 0x78)],
               "GLOBAL_NEGATIVE")
    return b, truth, used


def build_zoo_layer(seed: int):
    b, truth, used = build_zoo_builder(seed)
    layer = b.build()
    return layer, truth, used


# --------------------------------------------------------------------------- matrix layers
# Deterministic layers that walk a whole axis of the envelope (every base type x termination,
# every encoding x byte order ...) so that no combination depends on a lucky random choice.
def _svc2(b: LayerBuilder, k: int, name: str, rq_params: List[Any], rs_params: List[Any]) -> None:
    rq = b.request(f"rq_{name}", [b.coded_const("sid", 0x31), b.coded_const("sub", k)] + rq_params)
    rs = b.response(f"rs_{name}", [b.coded_const("sid", 0x71), b.coded_const("sub", k)] + rs_params)
    b.service(name, rq, [rs], [])


def build_matrix_builder(kind: str, container: Optional[str] = None) -> LayerBuilder:
    b = LayerBuilder(f"matrix_{kind}", "ecu", container=container)
    u8 = b.dop("m_u8", b.slt(bits=8))
    k = 0
    if kind == "minmax":
        for base in ("A_BYTEFIELD", "A_ASCIISTRING", "A_UTF8STRING", "A_UNICODE2STRING"):
            for term in ("ZERO", "HEX_FF", "END_OF_PDU"):
                for mn, mx in ((0, None), (2, 6)):
                    d = b.dop(f"mm{k}", b.minmax(base, mn, mx, term))
                    rs = [b.value("pre", u8), b.value("s", d)]
                    if term != "END_OF_PDU":
                        rs.append(b.value("post", u8))
                    _svc2(b, k, f"mm{k}", [b.value("s", d)], rs)
                    k += 1
    elif kind == "leading":
        for base in ("A_BYTEFIELD", "A_ASCIISTRING", "A_UTF8STRING", "A_UNICODE2STRING"):
            for bits in (8, 16, 4):
                for hilo in (None, False):
                    d = b.dop(f"ll{k}", b.leading(base, bits, hilo=hilo))
                    _svc2(b, k, f"ll{k}", [b.value("s", d), b.value("post", u8)], [b.value("pre", u8), b.value("s", d)])
                    k += 1
    elif kind == "strings":
        combos = [("A_ASCIISTRING", e) for e in (None, "ISO_8859_1", "ISO_8859_2", "WINDOWS_1252", "UTF8")] + \
                 [("A_UTF8STRING", e) for e in (None, "UTF8")] + [("A_UNICODE2STRING", e) for e in (None, "UCS2")]
        for base, enc in combos:
            for hilo in (None, True, False):
                for nbytes in (2, 4):
                    d = b.dop(f"st{k}", b.slt(base, 8 * nbytes, encoding=enc, hilo=hilo))
                    _svc2(b, k, f"st{k}", [b.value("s", d)], [b.value("s", d), b.value("post", u8)])
                    k += 1
    elif kind == "ints":
        for base, encs in (("A_UINT32", (None, "NONE", "BCD_P", "BCD_UP")), ("A_INT32", (None, "TWOC", "ONEC", "SM"))):
            for enc in encs:
                for bits, bitpos in ((8, 0), (12, 4), (16, 0), (32, 0), (3, 5)):
                    for hilo in (None, False):
                        d = b.dop(f"i{k}", b.slt(base, bits, encoding=enc, hilo=hilo))
                        _svc2(b, k, f"i{k}", [b.value("v", d, bit_position=bitpos)],
                              [b.value("pre", u8), b.value("v", d, bit_position=bitpos), b.value("post", u8)])
                        k += 1
        for base, bits in (("A_FLOAT32", 32), ("A_FLOAT64", 64)):
            for hilo in (None, False):
                d = b.dop(f"f{k}", b.slt(base, bits, hilo=hilo))
                _svc2(b, k, f"f{k}", [b.value("v", d)], [b.value("v", d), b.value("post", u8)])
                k += 1
    elif kind == "structs":
        u16 = b.dop("m_u16", b.slt(bits=16))
        # parameters with explicit positions that are NOT listed in the order of their positions
        rq = b.request("rq_pos0", [b.coded_const("sid", 0x31, byte_position=0), b.value("hi", u8, byte_position=3),
                                   b.coded_const("sub", 0xF0, byte_position=1), b.value("lo", u8, byte_position=2)])
        rs = b.response("rs_pos0", [b.coded_const("sid", 0x71, byte_position=0), b.value("last", u16, byte_position=3),
                                    b.value("mid", u8, byte_position=2), b.coded_const("sub", 0xF0, byte_position=1)])
        b.service("pos0", rq, [rs], [])
        b.examples["rq_pos0"] = ["31f00102"]
        b.examples["rs_pos0"] = ["71f0010203"]
        for bs in (None, 2, 4):
            item = b.structure(f"item{k}", [b.value("a", u8)], byte_size=bs)
            pair = b.structure(f"pair{k}", [b.value("a", u8), b.value("b", u16)], byte_size=None if bs is None else bs + 2)
            # a structure that does not sit at offset 0 of its parent, followed by another parameter
            _svc2(b, k, f"sa{k}", [b.value("pre", u8), b.value("z", item), b.value("post", u16)],
                  [b.value("z", pair), b.value("post", u8)])
            k += 1
            nested = b.structure(f"nest{k}", [b.value("head", u8), b.value("in", item), b.value("tail", u8)])
            _svc2(b, k, f"sn{k}", [b.value("n", nested), b.value("post", u8)], [b.value("pre", u16), b.value("n", nested)])
            k += 1
            for fk in ("eopdu", "static", "dynlen", "dynend"):
                if fk == "eopdu":
                    f = b.eopdu_field(f"f{k}", pair)
                elif fk == "static":
                    f = b.static_field(f"f{k}", pair, 2, (bs + 2) if bs else 3)
                elif fk == "dynlen":
                    f = b.dynlen_field(f"f{k}", pair, u8, offset=1)
                else:
                    f = b.dynend_field(f"f{k}", pair, u8, "255")
                _svc2(b, k, f"sf{k}", [b.value("pre", u8), b.value("list", f)], [b.value("list", f)])
                k += 1
    elif kind == "compu":
        # every computation-method category x {int, float} internal x {int, float} physical: the coded types
        # cover the whole 8 / 16 / 32 / 64 bit pattern space (also NaN, infinities, values outside the limits)
        combos = [("A_UINT32", 8, "A_UINT32"), ("A_INT32", 16, "A_FLOAT64"), ("A_FLOAT32", 32, "A_INT32"),
                  ("A_FLOAT64", 64, "A_UINT32"), ("A_FLOAT32", 32, "A_FLOAT64"), ("A_UINT32", 8, "A_FLOAT32")]
        for it, bits, pt in combos:
            isf = it.startswith("A_FLOAT")
            cms = [
                ("lin", b.linear(it, pt, 1, 2)),
                # (coefficients are written with the physical type: fractions only for float physical types)
                ("linlim", b.linear(it, pt, 0, 0.5 if pt.startswith("A_FLOAT") else 3, 1, lower="0", upper="100")),
                ("linden", b.linear(it, pt, -3, 1, 4)),
                ("sl", b.scale_linear(it, pt, [(0, 10, 0, 1), (11, 100, 5, 2)])),
                ("rf", b.rat_func(it, pt, [1, 2, 1], [1])),
                ("rfq", b.rat_func(it, pt, [4, 1], [-3, 1], lower=0, upper=200)),
                ("srf", b.scale_rat_func(it, pt, [(0, 9, [0, 1], [1]), (10, 50, [1, 0, 1], [2, 1])])),
                ("ti", b.tab_intp(it, pt, [(0, 0), (10, 100), (20, 150), (100, 160)])),
            ]
            for tag, cm in cms:
                d = b.dop(f"cm{k}_{tag}", b.slt(it, bits), compu=cm)
                _svc2(b, k, f"cm{k}", [b.value("v", d)], [b.value("pre", u8), b.value("v", d), b.value("post", u8)])
                import struct
                def enc(x, it=it, bits=bits):
                    if it == "A_FLOAT32":
                        return struct.pack(">f", float(x))
                    if it == "A_FLOAT64":
                        return struct.pack(">d", float(x))
                    return int(x).to_bytes(bits // 8, "big", signed=(it == "A_INT32"))
                specials = []
                if isf:
                    specials = [struct.pack(">f", v) if bits == 32 else struct.pack(">d", v)
                                for v in (float("nan"), float("inf"), float("-inf"), 1e30, -0.0, 3.0, 2.9999)]
                vals = [enc(v) for v in (0, 3, 10, 20, 50, 100)] + specials
                b.examples[f"rq_cm{k}"] = [(bytes([0x31, k]) + v).hex() for v in vals]
                b.examples[f"rs_cm{k}"] = [(bytes([0x71, k, 7]) + v + b"\x09").hex() for v in vals]
                k += 1
    elif kind == "lengths":
        # PARAM-LENGTH-INFO-TYPE objects (length given by a LENGTH-KEY parameter, in bits) at bit positions 0 and 4,
        # with example PDUs for the lengths 0 (an object of zero bits), 8 and 16
        for base, bitposs in (("A_UINT32", (0, 4)), ("A_INT32", (0,)), ("A_BYTEFIELD", (0,)), ("A_ASCIISTRING", (0,))):
            for bitpos in bitposs:
                lk = b.length_key(f"len{k}", u8)
                d = b.dop(f"pl{k}", b.param_length(base, lk))
                lk2 = b.length_key(f"rlen{k}", u8)
                d2 = b.dop(f"rpl{k}", b.param_length(base, lk2))
                _svc2(b, k, f"pl{k}", [lk, b.value("v", d, bit_position=bitpos)],
                      [lk2, b.value("v", d2, bit_position=bitpos), b.value("post", u8)])
                tail = b"\x41\x42\x43"
                b.examples[f"rq_pl{k}"] = [bytes([0x31, k, 0]).hex(), bytes([0x31, k, 0, 0]).hex(),
                                           (bytes([0x31, k, 8]) + tail[:2]).hex(), (bytes([0x31, k, 16]) + tail).hex()]
                b.examples[f"rs_pl{k}"] = [bytes([0x71, k, 0, 0x55]).hex(), (bytes([0x71, k, 8]) + tail).hex()]
                k += 1
    elif kind == "consts":
        # wide RESERVED blocks (more than 64 bits) in the middle and at the end; CODED-CONST parameters of
        # byte-field, text and float type after a non-constant parameter (where the service prefix does not
        # protect them from mismatching bytes)
        for bits, where in ((80, "end"), (80, "mid"), (72, "end"), (128, "end"), (64, "end"), (16, "mid")):
            rq_params = [b.value("v", u8)]
            if where == "end":
                rq_params.append(b.reserved("res", bits))
            else:
                rq_params += [b.reserved("res", bits), b.value("post", u8)]
            _svc2(b, k, f"rv{k}", rq_params, [b.value("pre", u8), b.reserved("res", bits), b.value("post", u8)])
            n = bits // 8
            b.examples[f"rq_rv{k}"] = [(bytes([0x31, k, 5]) + bytes(n) + (b"\x09" if where == "mid" else b"")).hex()]
            b.examples[f"rs_rv{k}"] = [(bytes([0x71, k, 5]) + bytes(n) + b"\x09").hex()]
            k += 1
        import struct
        for base, bits, value, raw in (("A_BYTEFIELD", 16, bytearray(b"\xfe\x01"), b"\xfe\x01"),
                                       ("A_BYTEFIELD", 8, bytes(b"\xfe"), b"\xfe"),
                                       ("A_ASCIISTRING", 16, "OK", b"OK"),
                                       ("A_FLOAT32", 32, 1.5, struct.pack(">f", 1.5)),
                                       ("A_FLOAT64", 64, -2.25, struct.pack(">d", -2.25)),
                                       ("A_INT32", 16, -2, b"\xff\xfe"),
                                       ("A_UTF8STRING", 24, "abc", b"abc")):
            cc = b.coded_const("tail", value, dct=b.slt(base, bits))
            cc2 = b.coded_const("mid", value, dct=b.slt(base, bits))
            _svc2(b, k, f"cc{k}", [b.value("v", u8), cc], [b.value("v", u8), cc2, b.value("post", u8)])
            b.examples[f"rq_cc{k}"] = [(bytes([0x31, k, 5]) + raw).hex()]
            b.examples[f"rs_cc{k}"] = [(bytes([0x71, k, 5]) + raw + b"\x09").hex()]
            k += 1
        # length keys whose data object is signed or has an offset: the PDU can announce a negative length
        lkd_signed = b.dop("lk_signed", b.slt("A_INT32", 8, "TWOC"))
        lkd_offset = b.dop("lk_offset", b.slt("A_INT32", 8), compu=b.linear("A_INT32", "A_INT32", -16, 1))
        for lkd, base in ((lkd_signed, "A_UINT32"), (lkd_signed, "A_BYTEFIELD"), (lkd_offset, "A_ASCIISTRING"),
                          (lkd_offset, "A_UINT32")):
            lk = b.length_key(f"len{k}", lkd)
            d = b.dop(f"pl{k}", b.param_length(base, lk))
            lk2 = b.length_key(f"rlen{k}", lkd)
            d2 = b.dop(f"rpl{k}", b.param_length(base, lk2))
            _svc2(b, k, f"pl{k}", [lk, b.value("v", d), b.value("post", u8)], [lk2, b.value("v", d2), b.value("post", u8)])
            raw = [0, 8, 16, 0x18, 0x20, 0x80, 0xFF, 0xF8]
            b.examples[f"rq_pl{k}"] = [(bytes([0x31, k, x]) + b"\x41\x42\x43\x09").hex() for x in raw]
            b.examples[f"rs_pl{k}"] = [(bytes([0x71, k, x]) + b"\x41\x42\x43\x09").hex() for x in raw]
            k += 1
    elif kind == "features":
        # legal constructs the shipped examples do not use
        u16 = b.dop("m_u16", b.slt(bits=16))
        # (1) TABLE-KEY bound statically to a row (TABLE-ROW-REF) followed by a TABLE-STRUCT
        s1 = b.structure("ft_s1", [b.value("p", u8)])
        s2 = b.structure("ft_s2", [b.value("q", u16), b.value("r", u8)])
        t = b.table("ft_t", u8, [("row_a", 1, s1), ("row_b", 2, s2), ("row_c", 7, u16)])
        for row in t.table_rows_raw[:3]:
            key = b.table_key("key", t, row=row)
            _svc2(b, k, f"ft{k}", [b.value("which", u8)], [key, b.table_struct("row", key), b.value("post", u8)])
            b.examples[f"rs_ft{k}"] = [bytes([0x71, k, 0x12, 0x34, 0x56, 0x09])[:(4 if row.short_name == "row_a" else 6)].hex(),
                                       bytes([0x71, k, 0x12, 0x34, 0x56, 0x09]).hex()]
            k += 1
        # (2) a response that echoes request bytes beyond the constant part of the request (RoutineControl style)
        rq = b.request(f"rq_ft{k}", [b.coded_const("sid", 0x31), b.coded_const("sub", k), b.value("id", u16)])
        rs = b.response(f"rs_ft{k}", [b.coded_const("sid", 0x71), b.matching_request("echo", 1, 3), b.value("v", u8)])
        b.service(f"ft{k}", rq, [rs], [])
        b.examples[f"rq_ft{k}"] = [bytes([0x31, k, 0x12, 0x34]).hex()]
        b.examples[f"rs_ft{k}"] = [bytes([0x71, k, 0x12, 0x34, 0x05]).hex()]
        k += 1
        # (3) fields whose items can consume zero bytes (the item length is given by a length key outside the field)
        lk = b.length_key(f"len{k}", u8)
        item = b.structure(f"ft_item{k}", [b.value("v", b.dop(f"ft_pl{k}", b.param_length("A_BYTEFIELD", lk)))])
        _svc2(b, k, f"ft{k}", [lk, b.value("items", b.eopdu_field(f"ft_f{k}", item))],
              [b.value("pre", u8)])
        b.examples[f"rq_ft{k}"] = [bytes([0x31, k, 8, 1, 2, 3]).hex(), bytes([0x31, k, 0]).hex(), bytes([0x31, k, 0, 1]).hex()]
        k += 1
        lk = b.length_key(f"len{k}", u8)
        item = b.structure(f"ft_item{k}", [b.value("v", b.dop(f"ft_pl{k}", b.param_length("A_BYTEFIELD", lk)))])
        _svc2(b, k, f"ft{k}", [lk, b.value("items", b.dynend_field(f"ft_f{k}", item, u8, "255")), b.value("post", u8)],
              [b.value("pre", u8)])
        b.examples[f"rq_ft{k}"] = [bytes([0x31, k, 8, 1, 2, 255, 9]).hex(), bytes([0x31, k, 0, 1, 255, 9]).hex(),
                                   bytes([0x31, k, 0, 1]).hex()]
        k += 1
        # (4) float objects whose length comes from a length key
        for base in ("A_FLOAT32", "A_FLOAT64"):
            lk = b.length_key(f"len{k}", u8)
            d = b.dop(f"ft_fl{k}", b.param_length(base, lk))
            _svc2(b, k, f"ft{k}", [lk, b.value("v", d)], [b.value("pre", u8)])
            n = 4 if base == "A_FLOAT32" else 8
            b.examples[f"rq_ft{k}"] = [(bytes([0x31, k, 8 * n]) + bytes(n)).hex(), (bytes([0x31, k, 16]) + bytes(n)).hex()]
            k += 1
        # (5) multiplexer cases with unbounded (INFINITE) limits
        c1 = b.structure("ft_c1", [b.value("x", u8)])
        c2 = b.structure("ft_c2", [b.value("y", u16)])
        m = b.mux("ft_m", u8, [("low", None, 4, c1), ("mid", 5, 9, None), ("high", 10, None, c2)], default=None)
        _svc2(b, k, f"ft{k}", [b.value("sel", m)], [b.value("sel", m), b.value("after", u8)])
        b.examples[f"rq_ft{k}"] = [bytes([0x31, k, 2, 7]).hex(), bytes([0x31, k, 200, 1, 2]).hex(), bytes([0x31, k, 7]).hex()]
        k += 1
        # (6) ENV-DATA nested in its ENV-DATA-DESC (the ODX 2.0 layout) with a PHYS-CONST parameter
        dtc = b.dtc_dop("ft_dtc", b.slt(bits=24), [("first_trouble", 0x112233, "first"), ("follow_up", 0x445566, "second")])
        edd = b.env_data_desc("ft_edd", "DTC", [
            ("common", True, [], [b.value("odo", u8)]),
            ("for_first", None, [0x112233], [b.phys_const("pc", u8, "7"), b.value("temp", u8)]),
        ])
        _svc2(b, k, f"ft{k}", [b.value("mask", u8)], [b.value("DTC", dtc), b.value("dtc_info", edd)])
        b.examples[f"rs_ft{k}"] = [bytes([0x71, k, 0x11, 0x22, 0x33, 9, 7, 0x55]).hex(), bytes([0x71, k, 0x44, 0x55, 0x66, 9]).hex()]
        k += 1
        # (7) dynamic length field with a wide item counter whose items can be of zero size
        u32 = b.dop("m_u32", b.slt(bits=32))
        lk = b.length_key(f"len{k}", u8)
        item = b.structure(f"ft_item{k}", [b.value("v", b.dop(f"ft_pl{k}", b.param_length("A_BYTEFIELD", lk)))])
        _svc2(b, k, f"ft{k}", [lk, b.value("items", b.dynlen_field(f"ft_f{k}", item, u32, offset=4))], [b.value("pre", u8)])
        b.examples[f"rq_ft{k}"] = [bytes([0x31, k, 8, 0, 0, 0, 2, 1, 2]).hex(), bytes([0x31, k, 0, 0xFF, 0xFF, 0xFF, 0xFF]).hex(),
                                   bytes([0x31, k, 0, 0, 0, 0, 3]).hex()]
        k += 1
    elif kind == "ambig":
        # services whose coding objects cannot be told apart by their constant parts: two positive responses of the
        # same shape, negative responses that differ only in (overlapping) NRC lists and in length
        u16 = b.dop("m_u16", b.slt(bits=16))
        for shape in ("two_pos_same", "two_pos_len", "neg_overlap"):
            rq = b.request(f"rq_am{k}", [b.coded_const("sid", 0x31), b.coded_const("sub", k), b.value("v", u8)])
            head = [("sid", 0x71), ("sub", k)]
            if shape == "two_pos_same":
                pos = [b.response(f"rs_am{k}_a", [b.coded_const(n, v) for n, v in head] + [b.value("x", u8)]),
                       b.response(f"rs_am{k}_b", [b.coded_const(n, v) for n, v in head] + [b.value("y", u8)])]
                neg = []
                b.examples[f"rs_am{k}_a"] = [bytes([0x71, k, 5]).hex()]
                b.examples[f"rs_am{k}_b"] = [bytes([0x71, k, 5]).hex()]
            elif shape == "two_pos_len":
                pos = [b.response(f"rs_am{k}_a", [b.coded_const(n, v) for n, v in head] + [b.value("x", u8)]),
                       b.response(f"rs_am{k}_b", [b.coded_const(n, v) for n, v in head] + [b.value("y", u16)])]
                neg = []
                b.examples[f"rs_am{k}_a"] = [bytes([0x71, k, 5]).hex(), bytes([0x71, k, 5, 6]).hex()]
                b.examples[f"rs_am{k}_b"] = [bytes([0x71, k, 5, 6]).hex()]
            else:
                pos = [b.response(f"rs_am{k}", [b.coded_const(n, v) for n, v in head] + [b.value("x", u8)])]
                neg = [b.response(f"ng_am{k}_a", [b.coded_const("sid", 0x7F), b.coded_const("rq_sid", 0x31),
                                                  b.nrc_const("nrc", [0x22, 0x24, 0x31])], "NEGATIVE"),
                       b.response(f"ng_am{k}_b", [b.coded_const("sid", 0x7F), b.coded_const("rq_sid", 0x31),
                                                  b.nrc_const("nrc", [0x13, 0x31, 0x33]), b.value("detail", u8)],
                                  "NEGATIVE")]
                b.examples[f"ng_am{k}_a"] = [bytes([0x7F, 0x31, 0x31]).hex(), bytes([0x7F, 0x31, 0x31, 7]).hex(),
                                             bytes([0x7F, 0x31, 0x22]).hex()]
                b.examples[f"ng_am{k}_b"] = [bytes([0x7F, 0x31, 0x31, 7]).hex(), bytes([0x7F, 0x31, 0x13, 0]).hex()]
            b.service(f"am{k}", rq, pos, neg)
            k += 1
    elif kind == "bad":
        # descriptions that violate the specification: illegal base type / encoding combinations and
        # bit lengths.  Strict mode reports them as errors, lenient mode downgrades them (C17 only).
        combos = [("A_ASCIISTRING", 16, "TWOC"), ("A_ASCIISTRING", 16, "BCD_P"), ("A_UTF8STRING", 16, "SM"),
                  ("A_UNICODE2STRING", 16, "BCD_UP"), ("A_UINT32", 8, "TWOC"), ("A_UINT32", 16, "UTF8"),
                  ("A_INT32", 8, "BCD_P"), ("A_INT32", 16, "ISO_8859_1"), ("A_FLOAT32", 16, None),
                  ("A_FLOAT64", 32, None), ("A_BYTEFIELD", 16, "UTF8"), ("A_FLOAT32", 32, "BCD_P")]
        for base, bits, enc in combos:
            d = b.dop(f"bad{k}", b.slt(base, bits, encoding=enc))
            _svc2(b, k, f"bad{k}", [b.value("v", d)], [b.value("pre", u8), b.value("v", d)])
            k += 1
        dm = b.dop(f"bad{k}", b.minmax("A_ASCIISTRING", 1, 4, "ZERO", encoding="SM"))
        _svc2(b, k, f"bad{k}", [b.value("v", dm)], [b.value("v", dm), b.value("post", u8)])
        k += 1
        # constants that do not fit their bit length, in the constant prefix and after it
        rq = b.request(f"rq_bad{k}", [b.coded_const("sid", 0x31), b.coded_const("sub", k), b.coded_const("big", 0x1FF, bits=8),
                                      b.value("v", u8)])
        rs = b.response(f"rs_bad{k}", [b.coded_const("sid", 0x71), b.coded_const("sub", k), b.value("v", u8),
                                       b.coded_const("big", 0x12345, bits=16)])
        b.service(f"bad{k}", rq, [rs], [])
        k += 1
        # a response that echoes more request bytes than the request's constant part provides
        u16 = b.dop("bad_u16", b.slt(bits=16))
        rq = b.request(f"rq_bad{k}", [b.coded_const("sid", 0x31), b.coded_const("sub", k), b.value("id", u16)])
        rs = b.response(f"rs_bad{k}", [b.coded_const("sid", 0x71), b.matching_request("echo", 1, 3), b.value("v", u8)])
        b.service(f"bad{k}", rq, [rs], [])
    else:
        raise ValueError(kind)
    b.response("gnr", [b.coded_const("sid", 0x7F), b.value("rq_sid", u8), b.coded_const("nrc", 0x78)],
               "GLOBAL_NEGATIVE")
    return b


MATRIX_KINDS = ["minmax", "leading", "strings", "ints", "structs", "lengths", "ambig", "compu", "consts", "features"]


def build_matrix_layer(kind: str):
    return build_matrix_builder(kind).build()


def matrix_examples(kind: str) -> Dict[str, List[str]]:
    """Example PDUs recorded by the builder (valid by construction), per coding object."""
    return dict(build_matrix_builder(kind).examples)
