"""Building real odxtools objects through the public dataclass API.

`mk(cls, **kw)` fills every dataclass field that is not given: None for Optional[...],
[] for List[...], NamedItemList() for NamedItemList[...], {} for Dict[...].  Required
fields without such a default must be passed.  Imports odxtools lazily (worker only).
"""
import dataclasses
from typing import Any, Dict, List, Optional, Sequence


def mk(cls, **kw):
    from odxtools.nameditemlist import NamedItemList
    args = {}
    for f in dataclasses.fields(cls):
        if not f.init:
            continue
        if f.name in kw:
            args[f.name] = kw.pop(f.name)
            continue
        t = f.type if isinstance(f.type, str) else str(f.type)
        t = t.replace("typing.", "")
        if t.startswith("Optional["):
            args[f.name] = None
        elif t.startswith("List["):
            args[f.name] = []
        elif t.startswith(("NamedItemList[", "odxtools.nameditemlist.NamedItemList[")):
            args[f.name] = NamedItemList()
        elif t.startswith("Dict["):
            args[f.name] = {}
        elif f.default is not dataclasses.MISSING:
            args[f.name] = f.default
        elif f.default_factory is not dataclasses.MISSING:  # type: ignore[misc]
            args[f.name] = f.default_factory()  # type: ignore[misc]
        else:
            raise TypeError(f"mk({cls.__name__}): required field {f.name!r} ({t}) not given")
    if kw:
        raise TypeError(f"mk({cls.__name__}): unknown fields {sorted(kw)}")
    return cls(**args)


class LayerBuilder:
    """Builds one diagnostic layer (ECU variant or base variant) with its own document
    fragment out of real odxtools classes, and finalises it like the unit tests do."""

    def __init__(self, name: str, kind: str = "ecu", container: Optional[str] = None):
        self.examples: Dict[str, List[str]] = {}
        from odxtools.nameditemlist import NamedItemList
        from odxtools.odxlink import DocType, OdxDocFragment
        self.name = name
        self.kind = kind
        if container is None:
            self.frags = [OdxDocFragment(name, DocType.CONTAINER)]
        else:
            # the fragments the ODX parser assigns to the objects of a layer
            self.frags = [OdxDocFragment(container, DocType.CONTAINER), OdxDocFragment(name, DocType.LAYER)]
        self.n = 0
        self.dops: List[Any] = []
        self.dtc_dops: List[Any] = []
        self.structures: List[Any] = []
        self.static_fields: List[Any] = []
        self.eopdu_fields: List[Any] = []
        self.dynlen_fields: List[Any] = []
        self.dynend_fields: List[Any] = []
        self.tables: List[Any] = []
        self.muxs: List[Any] = []
        self.env_datas: List[Any] = []
        self.env_data_descs: List[Any] = []
        self.requests: List[Any] = []
        self.pos: List[Any] = []
        self.neg: List[Any] = []
        self.gneg: List[Any] = []
        self.services: List[Any] = []
        self.NamedItemList = NamedItemList
        self.extra_links: Dict[Any, Any] = {}

    # ---- ids
    def oid(self, what: str):
        from odxtools.odxlink import OdxLinkId
        self.n += 1
        return OdxLinkId(f"{self.name}.{what}.{self.n}", self.frags)

    @staticmethod
    def ref(obj):
        from odxtools.odxlink import OdxLinkRef
        return OdxLinkRef.from_id(obj.odx_id)

    # ---- coded types
    def slt(self, base: str = "A_UINT32", bits: int = 8, encoding: Optional[str] = None,
            hilo: Optional[bool] = None, mask: Optional[int] = None, condensed: Optional[bool] = None):
        from odxtools.encoding import Encoding
        from odxtools.odxtypes import DataType
        from odxtools.standardlengthtype import StandardLengthType
        return StandardLengthType(
            base_data_type=DataType[base], base_type_encoding=Encoding[encoding] if encoding else None,
            bit_length=bits, bit_mask=mask, is_condensed_raw=condensed, is_highlow_byte_order_raw=hilo)

    def minmax(self, base: str, min_len: int, max_len: Optional[int], termination: str,
               encoding: Optional[str] = None, hilo: Optional[bool] = None):
        from odxtools.encoding import Encoding
        from odxtools.minmaxlengthtype import MinMaxLengthType, Termination
        from odxtools.odxtypes import DataType
        return MinMaxLengthType(
            base_data_type=DataType[base], base_type_encoding=Encoding[encoding] if encoding else None,
            is_highlow_byte_order_raw=hilo, min_length=min_len, max_length=max_len,
            termination=Termination[termination])

    def leading(self, base: str, bits: int, encoding: Optional[str] = None, hilo: Optional[bool] = None):
        from odxtools.encoding import Encoding
        from odxtools.leadinglengthinfotype import LeadingLengthInfoType
        from odxtools.odxtypes import DataType
        return LeadingLengthInfoType(
            base_data_type=DataType[base], base_type_encoding=Encoding[encoding] if encoding else None,
            is_highlow_byte_order_raw=hilo, bit_length=bits)

    # ---- compu methods
    def identical(self, internal: str, physical: Optional[str] = None):
        from odxtools.compumethods.compumethod import CompuCategory
        from odxtools.compumethods.identicalcompumethod import IdenticalCompuMethod
        from odxtools.odxtypes import DataType
        return IdenticalCompuMethod(category=CompuCategory.IDENTICAL, compu_internal_to_phys=None,
                                    compu_phys_to_internal=None, internal_type=DataType[internal],
                                    physical_type=DataType[physical or internal])

    def linear(self, internal: str, physical: str, offset: float, factor: float, denom: float = 1,
               lower: Optional[str] = None, upper: Optional[str] = None):
        from odxtools.compumethods.compuinternaltophys import CompuInternalToPhys
        from odxtools.compumethods.compumethod import CompuCategory
        from odxtools.compumethods.compurationalcoeffs import CompuRationalCoeffs
        from odxtools.compumethods.compuscale import CompuScale
        from odxtools.compumethods.limit import IntervalType, Limit
        from odxtools.compumethods.linearcompumethod import LinearCompuMethod
        from odxtools.odxtypes import DataType
        it, pt = DataType[internal], DataType[physical]
        scale = mk(CompuScale,
                   lower_limit=Limit(value_raw=lower, value_type=it, interval_type=IntervalType.CLOSED) if lower is not None else None,
                   upper_limit=Limit(value_raw=upper, value_type=it, interval_type=IntervalType.CLOSED) if upper is not None else None,
                   compu_rational_coeffs=CompuRationalCoeffs(value_type=pt, numerators=[offset, factor],
                                                             denominators=[denom]),
                   domain_type=it, range_type=pt)
        return LinearCompuMethod(category=CompuCategory.LINEAR,
                                 compu_internal_to_phys=mk(CompuInternalToPhys, compu_scales=[scale]),
                                 compu_phys_to_internal=None, internal_type=it, physical_type=pt)

    def _scale(self, it, pt, lower=None, upper=None, num=None, den=None, const=None, upper_open=False):
        from odxtools.compumethods.compuconst import CompuConst
        from odxtools.compumethods.compurationalcoeffs import CompuRationalCoeffs
        from odxtools.compumethods.compuscale import CompuScale
        from odxtools.compumethods.limit import IntervalType, Limit
        return mk(CompuScale,
                  lower_limit=Limit(value_raw=str(lower), value_type=it, interval_type=IntervalType.CLOSED) if lower is not None else None,
                  upper_limit=Limit(value_raw=str(upper), value_type=it,
                                    interval_type=IntervalType.OPEN if upper_open else IntervalType.CLOSED) if upper is not None else None,
                  compu_rational_coeffs=CompuRationalCoeffs(value_type=pt, numerators=list(num), denominators=list(den or [1]))
                  if num is not None else None,
                  compu_const=CompuConst(v=str(const), vt=None, data_type=pt) if const is not None else None,
                  domain_type=it, range_type=pt)

    def scale_linear(self, internal: str, physical: str, segments: Sequence[Any]):
        """segments: (lower, upper, offset, factor) of the internal-to-physical mapping."""
        from odxtools.compumethods.compuinternaltophys import CompuInternalToPhys
        from odxtools.compumethods.compumethod import CompuCategory
        from odxtools.compumethods.scalelinearcompumethod import ScaleLinearCompuMethod
        from odxtools.odxtypes import DataType
        it, pt = DataType[internal], DataType[physical]
        scales = [self._scale(it, pt, lo, up, [off, fac]) for lo, up, off, fac in segments]
        return ScaleLinearCompuMethod(category=CompuCategory.SCALE_LINEAR,
                                      compu_internal_to_phys=mk(CompuInternalToPhys, compu_scales=scales),
                                      compu_phys_to_internal=None, internal_type=it, physical_type=pt)

    def rat_func(self, internal: str, physical: str, num: Sequence[float], den: Sequence[float],
                 lower=None, upper=None):
        from odxtools.compumethods.compuinternaltophys import CompuInternalToPhys
        from odxtools.compumethods.compumethod import CompuCategory
        from odxtools.compumethods.ratfunccompumethod import RatFuncCompuMethod
        from odxtools.odxtypes import DataType
        it, pt = DataType[internal], DataType[physical]
        return RatFuncCompuMethod(category=CompuCategory.RAT_FUNC,
                                  compu_internal_to_phys=mk(CompuInternalToPhys,
                                                            compu_scales=[self._scale(it, pt, lower, upper, num, den)]),
                                  compu_phys_to_internal=None, internal_type=it, physical_type=pt)

    def scale_rat_func(self, internal: str, physical: str, segments: Sequence[Any]):
        """segments: (lower, upper, numerators, denominators)."""
        from odxtools.compumethods.compuinternaltophys import CompuInternalToPhys
        from odxtools.compumethods.compumethod import CompuCategory
        from odxtools.compumethods.scaleratfunccompumethod import ScaleRatFuncCompuMethod
        from odxtools.odxtypes import DataType
        it, pt = DataType[internal], DataType[physical]
        scales = [self._scale(it, pt, lo, up, num, den) for lo, up, num, den in segments]
        return ScaleRatFuncCompuMethod(category=CompuCategory.SCALE_RAT_FUNC,
                                       compu_internal_to_phys=mk(CompuInternalToPhys, compu_scales=scales),
                                       compu_phys_to_internal=None, internal_type=it, physical_type=pt)

    def tab_intp(self, internal: str, physical: str, points: Sequence[Any]):
        """points: (internal, physical) pairs, ascending."""
        from odxtools.compumethods.compuinternaltophys import CompuInternalToPhys
        from odxtools.compumethods.compumethod import CompuCategory
        from odxtools.compumethods.tabintpcompumethod import TabIntpCompuMethod
        from odxtools.odxtypes import DataType
        it, pt = DataType[internal], DataType[physical]
        scales = [self._scale(it, pt, lower=x, const=y) for x, y in points]
        return TabIntpCompuMethod(category=CompuCategory.TAB_INTP,
                                  compu_internal_to_phys=mk(CompuInternalToPhys, compu_scales=scales),
                                  compu_phys_to_internal=None, internal_type=it, physical_type=pt)

    def texttable(self, internal: str, entries: Sequence[Any]):
        """entries: (lower, upper, text)"""
        from odxtools.compumethods.compuconst import CompuConst
        from odxtools.compumethods.compuinternaltophys import CompuInternalToPhys
        from odxtools.compumethods.compumethod import CompuCategory
        from odxtools.compumethods.compuscale import CompuScale
        from odxtools.compumethods.limit import IntervalType, Limit
        from odxtools.compumethods.texttablecompumethod import TexttableCompuMethod
        from odxtools.odxtypes import DataType
        it = DataType[internal]
        scales = []
        for lo, hi, text in entries:
            scales.append(mk(CompuScale,
                             lower_limit=Limit(value_raw=str(lo), value_type=it, interval_type=IntervalType.CLOSED),
                             upper_limit=Limit(value_raw=str(hi), value_type=it, interval_type=IntervalType.CLOSED),
                             compu_const=CompuConst(v=None, vt=text, data_type=DataType.A_UNICODE2STRING),
                             domain_type=it, range_type=DataType.A_UNICODE2STRING))
        return TexttableCompuMethod(category=CompuCategory.TEXTTABLE,
                                    compu_internal_to_phys=mk(CompuInternalToPhys, compu_scales=scales),
                                    compu_phys_to_internal=None, internal_type=it,
                                    physical_type=DataType.A_UNICODE2STRING)

    # ---- data objects
    def dop(self, name: str, dct, physical: Optional[str] = None, compu=None):
        from odxtools.dataobjectproperty import DataObjectProperty
        from odxtools.odxtypes import DataType
        from odxtools.physicaltype import PhysicalType
        internal = dct.base_data_type.name
        if compu is None:
            compu = self.identical(internal, physical or internal)
        d = mk(DataObjectProperty, odx_id=self.oid("dop"), short_name=name, diag_coded_type=dct,
               physical_type=PhysicalType(base_data_type=compu.physical_type, display_radix=None,
                                          precision=None),
               compu_method=compu)
        self.dops.append(d)
        return d

    def dtc_dop(self, name: str, dct, dtcs: Sequence[Any]):
        from odxtools.diagnostictroublecode import DiagnosticTroubleCode
        from odxtools.dtcdop import DtcDop
        from odxtools.physicaltype import PhysicalType
        internal = dct.base_data_type.name
        objs = [mk(DiagnosticTroubleCode, odx_id=self.oid("dtc"), short_name=sn, trouble_code=code,
                   text=text, display_trouble_code=f"P{code:04X}") for sn, code, text in dtcs]
        d = mk(DtcDop, odx_id=self.oid("dtcdop"), short_name=name, diag_coded_type=dct,
               physical_type=PhysicalType(base_data_type=dct.base_data_type, display_radix=None, precision=None),
               compu_method=self.identical(internal), dtcs_raw=objs)
        self.dtc_dops.append(d)
        return d

    def structure(self, name: str, params: Sequence[Any], byte_size: Optional[int] = None):
        from odxtools.structure import Structure
        s = mk(Structure, odx_id=self.oid("struct"), short_name=name,
               parameters=self.NamedItemList(params), byte_size=byte_size)
        self.structures.append(s)
        return s

    def eopdu_field(self, name: str, struct, min_items: Optional[int] = None, max_items: Optional[int] = None):
        from odxtools.endofpdufield import EndOfPduField
        f = mk(EndOfPduField, odx_id=self.oid("eopdu"), short_name=name, structure_ref=self.ref(struct),
               min_number_of_items=min_items, max_number_of_items=max_items)
        self.eopdu_fields.append(f)
        return f

    def static_field(self, name: str, struct, n_items: int, item_size: int):
        from odxtools.staticfield import StaticField
        f = mk(StaticField, odx_id=self.oid("sfield"), short_name=name, structure_ref=self.ref(struct),
               fixed_number_of_items=n_items, item_byte_size=item_size)
        self.static_fields.append(f)
        return f

    def dynlen_field(self, name: str, struct, count_dop, offset: int, count_byte_pos: int = 0):
        from odxtools.determinenumberofitems import DetermineNumberOfItems
        from odxtools.dynamiclengthfield import DynamicLengthField
        f = mk(DynamicLengthField, odx_id=self.oid("dlfield"), short_name=name, structure_ref=self.ref(struct),
               offset=offset,
               determine_number_of_items=DetermineNumberOfItems(byte_position=count_byte_pos, bit_position=None,
                                                                dop_ref=self.ref(count_dop)))
        self.dynlen_fields.append(f)
        return f

    def dynend_field(self, name: str, struct, end_dop, termination_value: str):
        from odxtools.dynamicendmarkerfield import DynamicEndmarkerField
        from odxtools.dynenddopref import DynEndDopRef
        f = mk(DynamicEndmarkerField, odx_id=self.oid("defield"), short_name=name, structure_ref=self.ref(struct),
               dyn_end_dop_ref=DynEndDopRef(ref_id=end_dop.odx_id.local_id, ref_docs=list(self.frags),
                                            termination_value_raw=termination_value))
        self.dynend_fields.append(f)
        return f

    def mux(self, name: str, switch_dop, cases: Sequence[Any], default=None, byte_position: int = 1,
            switch_byte: int = 0):
        """cases: (short name, lower, upper, structure or None)"""
        from odxtools.compumethods.limit import IntervalType, Limit
        from odxtools.multiplexer import Multiplexer
        from odxtools.multiplexercase import MultiplexerCase
        from odxtools.multiplexerdefaultcase import MultiplexerDefaultCase
        from odxtools.multiplexerswitchkey import MultiplexerSwitchKey
        it = switch_dop.diag_coded_type.base_data_type
        cs = []
        def lim(v):
            if v is None:
                # <LOWER-LIMIT INTERVAL-TYPE="INFINITE"/>: unbounded
                return Limit(value_raw=None, value_type=it, interval_type=IntervalType.INFINITE)
            return Limit(value_raw=str(v), value_type=it, interval_type=IntervalType.CLOSED)

        for sn, lo, hi, st in cases:
            cs.append(mk(MultiplexerCase, short_name=sn, structure_ref=self.ref(st) if st is not None else None,
                         lower_limit=lim(lo), upper_limit=lim(hi)))
        dc = None
        if default is not None:
            dc = mk(MultiplexerDefaultCase, short_name="default_case",
                    structure_ref=self.ref(default) if default != "empty" else None)
        m = mk(Multiplexer, odx_id=self.oid("mux"), short_name=name, byte_position=byte_position,
               switch_key=MultiplexerSwitchKey(byte_position=switch_byte, bit_position=0, dop_ref=self.ref(switch_dop)),
               default_case=dc, cases=self.NamedItemList(cs))
        self.muxs.append(m)
        return m

    def table(self, name: str, key_dop, rows: Sequence[Any]):
        """rows: (short name, key, structure or dop)"""
        from odxtools.structure import Structure
        from odxtools.table import Table
        from odxtools.tablerow import TableRow
        tid = self.oid("table")
        from odxtools.odxlink import OdxLinkRef
        tref = OdxLinkRef.from_id(tid)
        rs = []
        for sn, key, target in rows:
            kw: Dict[str, Any] = {}
            if isinstance(target, Structure):
                kw["structure_ref"] = self.ref(target)
            elif target is not None:
                kw["dop_ref"] = self.ref(target)
            rs.append(mk(TableRow, odx_id=self.oid("row"), short_name=sn, key_raw=str(key), table_ref=tref, **kw))
        t = mk(Table, odx_id=tid, short_name=name, key_dop_ref=self.ref(key_dop), table_rows_raw=rs)
        self.tables.append(t)
        return t

    def env_data_desc(self, name: str, param_snref: str, env_datas: Sequence[Any]):
        """env_datas: (short name, all_value or None, [dtc values], [parameters])"""
        from odxtools.environmentdata import EnvironmentData
        from odxtools.environmentdatadescription import EnvironmentDataDescription
        eds = [mk(EnvironmentData, odx_id=self.oid("envdata"), short_name=sn, all_value=av, dtc_values=list(dv),
                  parameters=self.NamedItemList(params)) for sn, av, dv, params in env_datas]
        e = mk(EnvironmentDataDescription, odx_id=self.oid("edd"), short_name=name, param_snref=param_snref,
               env_datas=self.NamedItemList(eds))
        self.env_data_descs.append(e)
        return e

    # ---- parameters
    def coded_const(self, name: str, value: int, bits: int = 8, byte_position: Optional[int] = None,
                    bit_position: Optional[int] = None, dct=None):
        from odxtools.parameters.codedconstparameter import CodedConstParameter
        return mk(CodedConstParameter, short_name=name, diag_coded_type=dct or self.slt(bits=bits),
                  coded_value=value, byte_position=byte_position, bit_position=bit_position)

    def value(self, name: str, dop, byte_position: Optional[int] = None, bit_position: Optional[int] = None,
              default: Optional[str] = None, by_snref: bool = False):
        from odxtools.parameters.valueparameter import ValueParameter
        return mk(ValueParameter, short_name=name, dop_ref=None if by_snref else self.ref(dop),
                  dop_snref=dop.short_name if by_snref else None,
                  physical_default_value_raw=default, byte_position=byte_position, bit_position=bit_position)

    def phys_const(self, name: str, dop, value: str, byte_position: Optional[int] = None):
        from odxtools.parameters.physicalconstantparameter import PhysicalConstantParameter
        return mk(PhysicalConstantParameter, short_name=name, dop_ref=self.ref(dop),
                  physical_constant_value_raw=value, byte_position=byte_position)

    def reserved(self, name: str, bits: int, byte_position: Optional[int] = None, bit_position: Optional[int] = None):
        from odxtools.parameters.reservedparameter import ReservedParameter
        return mk(ReservedParameter, short_name=name, bit_length=bits, byte_position=byte_position,
                  bit_position=bit_position)

    def nrc_const(self, name: str, values: Sequence[int], bits: int = 8, byte_position: Optional[int] = None):
        from odxtools.parameters.nrcconstparameter import NrcConstParameter
        return mk(NrcConstParameter, short_name=name, diag_coded_type=self.slt(bits=bits),
                  coded_values=list(values), byte_position=byte_position)

    def matching_request(self, name: str, req_byte: int, length: int, byte_position: Optional[int] = None):
        from odxtools.parameters.matchingrequestparameter import MatchingRequestParameter
        return mk(MatchingRequestParameter, short_name=name, request_byte_position=req_byte, byte_length=length,
                  byte_position=byte_position)

    def length_key(self, name: str, dop, byte_position: Optional[int] = None):
        from odxtools.parameters.lengthkeyparameter import LengthKeyParameter
        return mk(LengthKeyParameter, short_name=name, odx_id=self.oid("lk"), dop_ref=self.ref(dop),
                  byte_position=byte_position)

    def param_length(self, base: str, length_key, encoding: Optional[str] = None):
        from odxtools.encoding import Encoding
        from odxtools.odxtypes import DataType
        from odxtools.paramlengthinfotype import ParamLengthInfoType
        return ParamLengthInfoType(base_data_type=DataType[base],
                                   base_type_encoding=Encoding[encoding] if encoding else None,
                                   is_highlow_byte_order_raw=None, length_key_ref=self.ref(length_key))

    def table_key(self, name: str, table, byte_position: Optional[int] = None, row=None):
        from odxtools.parameters.tablekeyparameter import TableKeyParameter
        return mk(TableKeyParameter, short_name=name, odx_id=self.oid("tk"),
                  table_ref=self.ref(table) if row is None else None,
                  table_row_ref=self.ref(row) if row is not None else None, byte_position=byte_position)

    def table_struct(self, name: str, key_param, byte_position: Optional[int] = None):
        from odxtools.parameters.tablestructparameter import TableStructParameter
        return mk(TableStructParameter, short_name=name, table_key_ref=self.ref(key_param),
                  byte_position=byte_position)

    def system(self, name: str, dop, sysparam: str, byte_position: Optional[int] = None):
        from odxtools.parameters.systemparameter import SystemParameter
        return mk(SystemParameter, short_name=name, dop_ref=self.ref(dop), sysparam=sysparam,
                  byte_position=byte_position)

    # ---- messages and services
    def request(self, name: str, params: Sequence[Any]):
        from odxtools.request import Request
        r = mk(Request, odx_id=self.oid("rq"), short_name=name, parameters=self.NamedItemList(params))
        self.requests.append(r)
        return r

    def response(self, name: str, params: Sequence[Any], rtype: str = "POSITIVE"):
        from odxtools.response import Response, ResponseType
        r = mk(Response, odx_id=self.oid("rs"), short_name=name, parameters=self.NamedItemList(params),
               response_type=ResponseType[rtype])
        {"POSITIVE": self.pos, "NEGATIVE": self.neg, "GLOBAL_NEGATIVE": self.gneg}[rtype].append(r)
        return r

    def service(self, name: str, request, pos: Sequence[Any] = (), neg: Sequence[Any] = ()):
        from odxtools.diagservice import DiagService
        s = mk(DiagService, odx_id=self.oid("svc"), short_name=name, request_ref=self.ref(request),
               pos_response_refs=[self.ref(x) for x in pos], neg_response_refs=[self.ref(x) for x in neg])
        self.services.append(s)
        return s

    # ---- layer
    def ddds(self):
        from odxtools.diagdatadictionaryspec import DiagDataDictionarySpec
        N = self.NamedItemList
        return mk(DiagDataDictionarySpec, dtc_dops=N(self.dtc_dops), data_object_props=N(self.dops),
                  structures=N(self.structures), static_fields=N(self.static_fields),
                  end_of_pdu_fields=N(self.eopdu_fields), dynamic_length_fields=N(self.dynlen_fields),
                  dynamic_endmarker_fields=N(self.dynend_fields), tables=N(self.tables), muxs=N(self.muxs),
                  env_data_descs=N(self.env_data_descs), env_datas=N(self.env_datas))

    def raw(self, patterns: Sequence[Any] = (), base_pattern=None, parent_refs: Sequence[Any] = ()):
        from odxtools.diaglayers.basevariantraw import BaseVariantRaw
        from odxtools.diaglayers.diaglayertype import DiagLayerType
        from odxtools.diaglayers.ecuvariantraw import EcuVariantRaw
        from odxtools.odxlink import OdxLinkId
        N = self.NamedItemList
        common = dict(odx_id=OdxLinkId(f"{self.name}.layer", self.frags), short_name=self.name,
                      diag_data_dictionary_spec=self.ddds(), diag_comms_raw=list(self.services),
                      requests=N(self.requests), positive_responses=N(self.pos), negative_responses=N(self.neg),
                      global_negative_responses=N(self.gneg), parent_refs=list(parent_refs))
        if self.kind == "ecu":
            return mk(EcuVariantRaw, variant_type=DiagLayerType.ECU_VARIANT, ecu_variant_patterns=list(patterns),
                      **common)
        return mk(BaseVariantRaw, variant_type=DiagLayerType.BASE_VARIANT, base_variant_pattern=base_pattern,
                  **common)

    def build(self, patterns: Sequence[Any] = (), base_pattern=None):
        """Finalise the layer stand-alone, exactly as the unit tests do."""
        from odxtools.database import Database
        from odxtools.diaglayers.basevariant import BaseVariant
        from odxtools.diaglayers.ecuvariant import EcuVariant
        from odxtools.odxlink import OdxLinkDatabase
        raw = self.raw(patterns, base_pattern)
        layer = EcuVariant(diag_layer_raw=raw) if self.kind == "ecu" else BaseVariant(diag_layer_raw=raw)
        odxlinks = OdxLinkDatabase()
        odxlinks.update(layer._build_odxlinks())
        db = Database()
        layer._resolve_odxlinks(odxlinks)
        layer._finalize_init(db, odxlinks)
        return layer
