#!/bin/sh
# Runs the quick check of the owning property against every seeded change (scratch worktree per change)
# and prints one line per change: <id> <property> caught|MISSED|harness-error.
# usage: tools/regress_seeded.sh [id-prefix]
HERE="$(cd "$(dirname "$0")/.." && pwd)"
cd "$HERE" || exit 2
for d in seeded/${1:-}*/; do
  id=$(basename "$d")
  prop=$(python3 -c "import json,sys; print(json.load(open('$d/meta.json'))['property'])")
  out=$(tools/try_mutant.sh "$d/patch.diff" "$prop" 2>&1)
  if echo "$out" | grep -q "PATCH DOES NOT APPLY"; then
    sup=$(python3 -c "import json; m=json.load(open('$d/meta.json')); print(m.get('superseded',{}).get('last_verified_silent_on_repo_commit',''))")
    if [ -n "$sup" ]; then echo "$id $prop superseded (verified on /repo $sup, no longer applies to the repaired tree)"; else echo "$id $prop patch-does-not-apply (rebase it onto the current /repo HEAD)"; fi
    continue
  fi
  case "$id" in R-*)
    # behaviour-preserving refactoring: the check must stay silent
    if echo "$out" | grep -q -- "-> exit 0" && ! echo "$out" | grep -q "^VIOLATION"; then res=silent-as-expected; else res=FALSE-ALARM; fi
    echo "$id $prop $res"; continue;;
  esac
  if echo "$out" | grep -q "^VIOLATION property=$prop"; then
    if echo "$out" | grep -q -- "-> exit 1"; then res=caught; else res="VIOLATION-but-not-exit-1"; fi
  elif echo "$out" | grep -q "HARNESS ERROR"; then res="harness-error"
  elif echo "$out" | grep -q -- "-> exit 0"; then res=MISSED
  else res="unknown"; fi
  exp=$(python3 -c "import json; print(json.load(open('$d/meta.json'))['detection'].get('expected','caught'))")
  if [ "$exp" = "missed" ] && [ "$res" = "MISSED" ]; then res="missed-as-documented"; fi
  echo "$id $prop $res $(echo "$out" | grep -o 'new_violation_classes=[0-9]*' | tail -1)"
done
