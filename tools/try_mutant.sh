#!/bin/sh
# usage: tools/try_mutant.sh <patch.diff> <PROP> [extra verif args]
# Applies the patch to a scratch worktree of /repo outside /repo and /verif, runs the
# repository's test suite and the quick check of PROP against it, removes the worktree.
PATCH="$(readlink -f "$1")"; PROP="$2"; shift 2
HERE="$(cd "$(dirname "$0")/.." && pwd)"
D="$(mktemp -d /tmp/mut-XXXXXX)"; rmdir "$D"
git -C /repo worktree add -q "$D" HEAD || exit 2
cp /repo/odxtools/version.py "$D/odxtools/version.py" 2>/dev/null
if ! git -C "$D" apply "$PATCH"; then echo "PATCH DOES NOT APPLY"; git -C /repo worktree remove --force "$D"; exit 2; fi
echo "== test suite with the change:"; (cd "$D" && timeout 900 /venv/bin/python -m pytest -q -p no:cacheprovider 2>&1 | tail -1)
echo "== $PROP quick check against the changed tree:"
(cd "$HERE" && timeout 1500 bin/verif check "$PROP" --tier quick --repo "$D" --no-evidence "$@" 2>&1 | grep -v "^$" | cut -c1-400)
echo "== exit status: $?"
git -C /repo worktree remove --force "$D"
