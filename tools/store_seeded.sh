#!/bin/sh
# usage: tools/store_seeded.sh <id> <PROP> <diff> <demo.py> <wave-label>
# Confirms a delivered change (test suite passes with it, demo fails with it and passes without it), runs the
# quick check of PROP against it and stores patch, demo and a meta.json skeleton under seeded/<id>/.
# The free-text fields "change" and "needs_to_manifest" are filled in by hand afterwards.
ID="$1"; PROP="$2"; DIFF="$3"; DEMO="$4"; WAVE="$5"
HERE="$(cd "$(dirname "$0")/.." && pwd)"; cd "$HERE" || exit 2
C=$(tools/confirm_seeded.sh "$DIFF" "$DEMO" 2>&1 | tail -1)
echo "$ID confirm: $C"
OUT=$(tools/try_mutant.sh "$DIFF" "$PROP" 2>&1)
V=$(echo "$OUT" | grep "^VIOLATION property=$PROP" | head -1 | cut -c1-300)
S=$(echo "$OUT" | grep -- "-> exit" | tail -1 | cut -c1-300)
echo "$ID detect: ${V:-no violation line} | $S"
mkdir -p "seeded/$ID"; cp "$DIFF" "seeded/$ID/patch.diff"; cp "$DEMO" "seeded/$ID/demo.py"
ID="$ID" PROP="$PROP" C="$C" V="$V" S="$S" WAVE="$WAVE" python3 - <<'EOF'
import json, os, re
e = os.environ
c = e["C"]
m = re.search(r"tests_with_change='([^']*)' demo_rc_with_change=(\d+) demo_rc_without_change=(\d+)", c)
caught = bool(e["V"]) and "-> exit 1" in e["S"]
meta = {
 "id": e["ID"], "property": e["PROP"], "change": "TODO", "needs_to_manifest": "TODO",
 "source": "fresh sub-agent (%s) with only the property text and a scratch worktree" % e["WAVE"],
 "confirmed": {"how": "tools/confirm_seeded.sh patch.diff demo.py (scratch worktree of /repo HEAD under /tmp, removed afterwards)",
               "test_suite_with_change": m.group(1) if m else c, "demo_rc_with_change": int(m.group(2)) if m else None,
               "demo_rc_without_change": int(m.group(3)) if m else None},
 "detection": {"how": "tools/try_mutant.sh seeded/%s/patch.diff %s (quick tier, --repo <scratch worktree>)" % (e["ID"], e["PROP"]),
               "result": ("caught: " + e["V"]) if caught else ("MISSED: " + e["S"]), "expected": "caught" if caught else "TODO"},
}
json.dump(meta, open("seeded/%s/meta.json" % e["ID"], "w"), indent=1)
EOF
