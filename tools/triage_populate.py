#!/usr/bin/env python3
"""Runs every 'populate' (class, field) pair of C11 on the tree given by argv[1], with plain values and with XML
metacharacters in every free-text value of the synthesized element, and writes populate_triage.json: which pairs
round-trip (outcome ok, no violation) and what the others do.  The committed whitelists
vsim/props/c11_populate_ok.json and c11_populate_meta_ok.json are derived from it (see DESIGN.md)."""
import json, os, sys
HERE = os.path.dirname(os.path.dirname(os.path.abspath(__file__)))
sys.path.insert(0, HERE)
from vsim.core import worker
repo = sys.argv[1] if len(sys.argv) > 1 else "/repo"
os.environ["VERIF_C11_ALL_POPULATE"] = "1"
worker.init_worker(repo, {"backend": "c"}, "C11")
from vsim.props import c11
res = {"plain": {}, "meta": {}}
seen = set()
for base in sorted(c11.STATE["targets"]):
    for t in c11.STATE["targets"][base]:
        key = (t["cls"], t["field"])
        if t["kind"] != "populate" or key in seen:
            continue
        seen.add(key)
        for mode in ("plain", "meta"):
            trace = {"base": base, "prelude": None, "norefresh": False,
                     "pert": {"path": t["path"], "cls": t["cls"], "field": t["field"], "type": t["type"], "kind": "populate",
                              "vclass": mode, "n": 0, "alts": []},
                     "env": {"tz": ["UTC", "UTC"], "relative_paths": False},
                     "entries": ["load_pdx_file", "load_pdx_file"], "orders": [1, 2], "index_pos": ["keep", "keep"],
                     "clock": [1_700_000_000.0, "none", 0.0]}
            r = c11.execute(trace)
            out = [k for k in r["counters"] if k.startswith("outcome_")][0][8:]
            res[mode][f"{key[0]}.{key[1]}"] = {"base": base, "outcome": out,
                                               "violations": [[v["oracle"], v["sig"].get("what") or v["sig"].get("exc"),
                                                               str(v["detail"])[:160]] for v in r["violations"]]}
json.dump(res, open(os.path.join(HERE, "populate_triage.json"), "w"), indent=1, sort_keys=True)
for mode, fn in (("plain", "c11_populate_ok.json"), ("meta", "c11_populate_meta_ok.json")):
    ok = sorted(k for k, v in res[mode].items() if v["outcome"] == "ok" and not v["violations"])
    json.dump(ok, open(os.path.join(HERE, "vsim", "props", fn), "w"), indent=1)
    print(mode, len(res[mode]), "pairs;", len(ok), "round-trip;", sum(1 for v in res[mode].values() if v["outcome"] == "discarded"),
          "discarded;", sum(1 for v in res[mode].values() if v["violations"]), "with violations")
print("fail only with metacharacters:")
for k, v in sorted(res["meta"].items()):
    p = res["plain"].get(k, {})
    if (v["outcome"] != "ok" or v["violations"]) and p.get("outcome") == "ok" and not p.get("violations"):
        print("  ", k, v["outcome"], v["violations"][:1])
