#!/usr/bin/env python3
"""Runs every 'populate' (class, field) pair of C11 once on the tree given by --repo and writes
populate_triage.json: which pairs round-trip (outcome ok, no violation) and what the others do.
The committed whitelist vsim/props/c11_populate_ok.json is derived from it (see DESIGN.md)."""
import json, os, sys
HERE = os.path.dirname(os.path.dirname(os.path.abspath(__file__)))
sys.path.insert(0, HERE)
from vsim.core import worker
repo = sys.argv[1] if len(sys.argv) > 1 else "/repo"
os.environ["VERIF_C11_ALL_POPULATE"] = "1"
worker.init_worker(repo, {"backend": "c"}, "C11")
from vsim.props import c11
from vsim.core.seeds import run_seed
res = {}
pairs = c11.STATE["pairs"]
for i, (base, key, vclass) in enumerate(pairs):
    t = c11.gen(run_seed("C11", 0, i), i, "quick")
    if not t.get("pert") or t["pert"]["kind"] != "populate":
        continue
    t["entries"] = ["load_pdx_file", "load_pdx_file"]; t["index_pos"] = ["keep", "keep"]; t["prelude"] = None
    r = c11.execute(t)
    out = [k for k in r["counters"] if k.startswith("outcome_")][0][8:]
    res[f"{key[0]}.{key[1]}"] = {"base": base, "outcome": out, "violations": [[v["oracle"], v["sig"].get("what") or v["sig"].get("exc")] for v in r["violations"]]}
json.dump(res, open(os.path.join(HERE, "populate_triage.json"), "w"), indent=1, sort_keys=True)
ok = sorted(k for k, v in res.items() if v["outcome"] == "ok" and not v["violations"])
json.dump(ok, open(os.path.join(HERE, "vsim", "props", "c11_populate_ok.json"), "w"), indent=1)
print(len(res), "pairs;", len(ok), "round-trip;", sum(1 for v in res.values() if v["outcome"] == "discarded"), "discarded;",
      sum(1 for v in res.values() if v["violations"]), "with violations")
