#!/bin/sh
# usage: tools/confirm_seeded.sh <diff> <demo.py>   -> prints test result, demo rc with and without the change
PATCH="$(readlink -f "$1")"; DEMO="$(readlink -f "$2")"
D="$(mktemp -d /tmp/cnf-XXXXXX)"; rmdir "$D"
git -C /repo worktree add -q "$D" HEAD || exit 2
cp /repo/odxtools/version.py "$D/odxtools/version.py" 2>/dev/null
git -C "$D" apply "$PATCH" || { echo "PATCH DOES NOT APPLY"; git -C /repo worktree remove --force "$D"; exit 2; }
T=$(cd "$D" && timeout 900 /venv/bin/python -m pytest -q -p no:cacheprovider 2>&1 | tail -1)
(cd "$D" && timeout 300 /venv/bin/python "$DEMO" >/dev/null 2>&1); RC_WITH=$?
git -C "$D" checkout -q -- .
(cd "$D" && timeout 300 /venv/bin/python "$DEMO" >/dev/null 2>&1); RC_WITHOUT=$?
git -C /repo worktree remove --force "$D"
echo "tests_with_change='$T' demo_rc_with_change=$RC_WITH demo_rc_without_change=$RC_WITHOUT"
