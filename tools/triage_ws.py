#!/usr/bin/env python3
"""Tries the 'ws' value class (TAB / LF / CR inside a free-text value) for every (class, field) pair on the tree
given by argv[1]; the committed whitelist vsim/props/c11_ws_ok.json holds the pairs for which every tried instance
round-trips and at least one is accepted (in practice: the values the writer emits as XML attributes)."""
import json, os, sys, random
HERE = os.path.dirname(os.path.dirname(os.path.abspath(__file__)))
sys.path.insert(0, HERE)
from vsim.core import worker
repo = sys.argv[1] if len(sys.argv) > 1 else "/repo"
os.environ["VERIF_C11_ALL_WS"] = "1"
worker.init_worker(repo, {"backend": "c"}, "C11")
from vsim.props import c11
res = {}
rng = random.Random(7)
for base in sorted(c11.STATE["targets"]):
    by = {}
    for t in c11.STATE["targets"][base]:
        if t["kind"] == "leaf" and t["field"] in c11.FREE_TEXT_FIELDS and "str" in t["type"]:
            by.setdefault((t["cls"], t["field"]), []).append(t)
    for key, lst in sorted(by.items()):
        rng.shuffle(lst)
        for t in lst[:3]:
            trace = {"base": base, "prelude": None, "norefresh": False,
                     "pert": {"path": t["path"], "cls": t["cls"], "field": t["field"], "type": t["type"], "kind": "leaf",
                              "vclass": "ws", "n": 0, "alts": []},
                     "env": {"tz": ["UTC", "UTC"], "relative_paths": False},
                     "entries": ["load_pdx_file", "load_pdx_file"], "orders": [1, 2], "index_pos": ["keep", "keep"],
                     "clock": [1_700_000_000.0, "none", 0.0]}
            r = c11.execute(trace)
            out = [k for k in r["counters"] if k.startswith("outcome_")][0][8:]
            e = res.setdefault(f"{key[0]}.{key[1]}", {"outcomes": {}, "violations": []})
            e["outcomes"][out] = e["outcomes"].get(out, 0) + 1
            for v in r["violations"]:
                e["violations"].append([base, v["oracle"], v["sig"].get("what") or v["sig"].get("exc")])
ok = sorted(k for k, v in res.items() if not v["violations"] and v["outcomes"].get("ok", 0) > 0)
json.dump(ok, open(os.path.join(HERE, "vsim", "props", "c11_ws_ok.json"), "w"), indent=1)
print(len(res), "pairs;", len(ok), "whitelisted")
for k, v in sorted(res.items()):
    print(k, v["outcomes"], v["violations"][:1])
