#!/usr/bin/env python3
"""Tries 'retarget' perturbations (a *-REF pointed at what another element of the same class
references, written WITHOUT refresh()) for every (class, field) pair on the tree given by argv[1]
and writes retarget_triage.json; the committed whitelist vsim/props/c11_retarget_ok.json holds the
pairs for which every tried instance round-trips (or is rejected as invalid by refresh()) and at
least one is accepted.  See DESIGN.md section 16."""
import json, os, sys, random
HERE = os.path.dirname(os.path.dirname(os.path.abspath(__file__)))
sys.path.insert(0, HERE)
from vsim.core import worker
repo = sys.argv[1] if len(sys.argv) > 1 else "/repo"
os.environ["VERIF_C11_ALL_RETARGET"] = "1"
worker.init_worker(repo, {"backend": "c"}, "C11")
from vsim.props import c11
res = {}
rng = random.Random(5)
for base in sorted(c11.STATE["targets"]):
    tg = [t for t in c11.STATE["targets"][base] if t["kind"] == "retarget"]
    by = {}
    for t in tg:
        by.setdefault((t["cls"], t["field"]), []).append(t)
    for key, lst in sorted(by.items()):
        rng.shuffle(lst)
        tried = 0
        for t in lst:
            donors = [d for d in lst if d["ref"] != t["ref"] and d["path"][:(2 if t["cls"] == "ParentRef" else 4)] == t["path"][:(2 if t["cls"] == "ParentRef" else 4)]]
            if not donors or tried >= 10:
                continue
            same = [d for d in donors if d.get("ctx") == t.get("ctx")] or donors
            d = rng.choice(same)
            tried += 1
            for mode in (True, False):
                trace = {"base": base, "prelude": None, "norefresh": mode,
                         "pert": {"path": t["path"], "cls": t["cls"], "field": t["field"], "type": t["type"], "kind": "retarget",
                                  "vclass": "plain", "n": 0, "alts": [], "donor": d["path"]},
                         "env": {"tz": ["UTC", "UTC"], "relative_paths": False},
                         "entries": ["load_pdx_file", "load_pdx_file"], "orders": [1, 2], "index_pos": ["keep", "keep"],
                         "clock": [1_700_000_000.0, "none", 0.0]}
                r = c11.execute(trace)
                out = [k for k in r["counters"] if k.startswith("outcome_")][0][8:]
                e = res.setdefault(f"{key[0]}.{key[1]}" + ("" if mode else "@refresh"), {"outcomes": {}, "violations": []})
                e["outcomes"][out] = e["outcomes"].get(out, 0) + 1
                for v in r["violations"]:
                    e["violations"].append([base, v["oracle"], v["sig"].get("what") or v["sig"].get("exc"), c11.path_str(t["path"])])
json.dump(res, open(os.path.join(HERE, "retarget_triage.json"), "w"), indent=1, sort_keys=True)
ok = sorted(k for k, v in res.items() if not v["violations"] and v["outcomes"].get("ok", 0) > 0)
json.dump(ok, open(os.path.join(HERE, "vsim", "props", "c11_retarget_ok.json"), "w"), indent=1)
print(len(res), "pairs;", len(ok), "whitelisted")
for k, v in sorted(res.items()):
    print(k, v["outcomes"], v["violations"][:2])
