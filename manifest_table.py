"""Per-property manifest entries that grow as checks are built (merged by tools_gen_manifest.py)."""
CLAIMED = {
 "C14": dict(level="exploration", ref="DESIGN.md §6",
    technique="deterministic simulation of a tester/ECU exchange: the real VariantMatcher coroutine is driven against a seeded stub ECU (response function over positive/negative/global-negative/truncated/foreign answers), cache on and off, judged against a 15-line reference model",
    text="Seeded search over candidate lists (0-4 real EcuVariant/BaseVariant objects, 0-3 patterns, 1-3 matching parameters, shared/distinct ident services, SNREF/SNPATHREF targets in structures and end-of-PDU fields, four value types) x ECU response tables x cache on/off; verdict, cache independence, request set, exactly-once with cache and idempotence of a second loop are checked on the recorded request/response history. Sampling, not proof.",
    note="Trusts the model-side response encoder for the simple layouts and the reference model; a DID determines the response layout; a response that differs from the positive response only in a constant is accepted either way (the library decodes it with a warning)."),
 "C16": dict(level="exploration", ref="DESIGN.md §7",
    technique="seeded history search against an executable reference model (ShardStore-style half of deterministic simulation): exhaustive depth-4/5 histories then random long histories, pickle as restart-from-durable-state, failing operations as faults; no scheduler involved",
    text="Every history of depth 4 (quick) / 5 (thorough) over a 14-operation alphabet is enumerated, then random histories of length 5-60 over a 22-item alphabet with colliding, keyword, digit-leading and method-like short names and a pool of live copies; all invariants of the statement are checked through the public API after every step on every live list. Exhaustive only up to that depth and alphabet.",
    note="Trusts the reference model (a Python list of identities) and CPython's copy/pickle. The same object is never inserted twice. No concurrency, clock or I/O exists in this class; the technique contributes history search and exact replay only."),
 "C13": dict(level="fault_enumeration", ref="DESIGN.md §2, §4",
    technique="deterministic simulation with fault injection: frame-level fault injector (drop/dup/swap/delay/truncate/corrupt/stray/empty/random/sender crash/snooper restart) on a simulated CAN bus, systematic single faults at every position plus seeded multi-fault search",
    text="Per seeded well-formed base stream every fault kind is applied at every position (then seeded double faults, random multi-fault sequences and fully random frame sequences); the real reassembler behind direct/text/bus entry points is judged on never raising, reporting only what the delivered frames justify (subsequence DP), one report per first frame, and reassembling a fresh transfer after the last fault. Enumeration is complete only per sampled base stream; base streams are sampled.",
    note="Trusts the oracle's reading of ISO 15765-2 (what a report may consist of), the reference segmenter, python-can Message. Text formats cannot express empty frames."),
}
PENDING = {
 "C05": "claimed by design (DESIGN.md §5) but its check is not built yet in this commit",
 "C11": "claimed by design (DESIGN.md §9) but its check is not built yet in this commit",
 "C17": "claimed by design (DESIGN.md §8) but its check is not built yet in this commit",
}
