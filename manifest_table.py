"""Per-property manifest entries that grow as checks are built (merged by tools_gen_manifest.py)."""
CLAIMED = {
 "C13": dict(level="fault_enumeration", ref="DESIGN.md §2, §4",
    technique="deterministic simulation with fault injection: frame-level fault injector (drop/dup/swap/delay/truncate/corrupt/stray/empty/random/sender crash/snooper restart) on a simulated CAN bus, systematic single faults at every position plus seeded multi-fault search",
    text="Per seeded well-formed base stream every fault kind is applied at every position (then seeded double faults, random multi-fault sequences and fully random frame sequences); the real reassembler behind direct/text/bus entry points is judged on never raising, reporting only what the delivered frames justify (subsequence DP), one report per first frame, and reassembling a fresh transfer after the last fault. Enumeration is complete only per sampled base stream; base streams are sampled.",
    note="Trusts the oracle's reading of ISO 15765-2 (what a report may consist of), the reference segmenter, python-can Message. Text formats cannot express empty frames."),
}
PENDING = {
 "C05": "claimed by design (DESIGN.md §5) but its check is not built yet in this commit",
 "C11": "claimed by design (DESIGN.md §9) but its check is not built yet in this commit",
 "C14": "claimed by design (DESIGN.md §6) but its check is not built yet in this commit",
 "C16": "claimed by design (DESIGN.md §7) but its check is not built yet in this commit",
 "C17": "claimed by design (DESIGN.md §8) but its check is not built yet in this commit",
}
