"""Per-property manifest entries that grow as checks are built (merged by tools_gen_manifest.py)."""
CLAIMED = {}
PENDING = {
 "C05": "claimed by design (DESIGN.md §5) but its check is not built yet in this commit",
 "C11": "claimed by design (DESIGN.md §9) but its check is not built yet in this commit",
 "C13": "claimed by design (DESIGN.md §4) but its check is not built yet in this commit",
 "C14": "claimed by design (DESIGN.md §6) but its check is not built yet in this commit",
 "C16": "claimed by design (DESIGN.md §7) but its check is not built yet in this commit",
 "C17": "claimed by design (DESIGN.md §8) but its check is not built yet in this commit",
}
