#!/usr/bin/env python3
"""Regenerates MANIFEST.json from the table below (kept in one place so that the
manifest is always schema-valid)."""
import json, os, sys
HERE = os.path.dirname(os.path.abspath(__file__))

CLAIMED = {
    "C12": dict(level="exploration", ref="DESIGN.md §2, §3",
        technique="deterministic simulation: seeded CAN-bus arbitration schedules over reference-segmented ISO-TP traffic fed to the real reassembler through every entry point",
        text="Seeded search over arbitration schedules x telegram lengths x frame sizes x padding x entry points (direct call, candump text in three formats, BusABC on a virtual-time asyncio loop, passive/active/verbose), the first runs of each batch walking all interleavings of 2-3 short transfers; each run is checked against the transmitted telegram list. Sampling, not proof: a clean batch is evidence for the explored schedules only.",
        note="Trusts the reference segmenter written from ISO 15765-2 in vsim/can/world.py, python-can's Message class, CPython's asyncio task machinery (run on a virtual-time loop). Lengths 1..4095 only."),
}
NA = {
 "C01": "pure function of (description, values): no schedule, clock, fault or history for a simulator to control (DESIGN.md §10)",
 "C02": "bit-exactness against the ODX wire format needs an independent reference interpreter (differential testing), not a simulator; the backend clause is only used as a per-process swarm knob (DESIGN.md §10)",
 "C03": "decode->encode identity on canonical PDUs is a pure function of (description, PDU) (DESIGN.md §10)",
 "C04": "rejection of unrepresentable values is a pure function of (description, value); no fault or schedule involved (DESIGN.md §10)",
 "C06": "service attribution is a pure function of (service set, message); the prefix tree is immutable after construction (DESIGN.md §10)",
 "C07": "compu-method arithmetic is pure mathematics over (method, value) (DESIGN.md §10)",
 "C08": "static length/prefix/required/free metadata is a pure function of (description, values) (DESIGN.md §10)",
 "C09": "value inheritance is a pure function of the layer hierarchy computed once at load (DESIGN.md §10)",
 "C10": "reference resolution is a pure function of the loaded documents; its only order dependence (file order) is exercised under C11 (DESIGN.md §10)",
 "C15": "communication-parameter resolution is a pure function of the hierarchy (DESIGN.md §10)",
 "C18": "compare/list tool output is a pure function of two static databases (DESIGN.md §10)",
}
PENDING = {}

def main():
    sys.path.insert(0, HERE)
    from manifest_table import CLAIMED as C2, PENDING as P2
    CLAIMED.update(C2); PENDING.update(P2)
    checks = []
    for pid in sorted(CLAIMED):
        c = CLAIMED[pid]
        checks.append({
            "property_id": pid,
            "quick_cmd": f"bin/verif check {pid} --tier quick",
            "thorough_cmd": f"bin/verif check {pid} --tier thorough",
            "evidence_file": f"evidence/{pid}.json",
            "replay_cmd_template": "bin/verif replay {path}",
            "engine": "vsim",
            "level_claimed": {"category": c["level"], "text": c["text"], "design_ref": c["ref"]},
            "level_note": c["note"],
            "technique": c["technique"],
        })
    na = [{"property_id": k, "reason": v} for k, v in sorted({**NA, **PENDING}.items()) if k not in CLAIMED]
    doc = {
        "version": 1,
        "setup_cmd": "bin/setup",
        "hooks": {
            "guard": "ODXTOOLS_VERIF",
            "enable": "no source hook exists: every seam is an argument (bus, text stream, candidate lists), the documented module global odxtools.exceptions.strict_mode, a module attribute patched from outside, or sys.monitoring; checks import odxtools from /repo's working tree (--repo)",
            "baseline_off_cmd": "cd /repo && /venv/bin/python -m pytest -ra -q -p no:cacheprovider --timeout=900 --continue-on-collection-errors",
            "source_commits": [],
            "add_only": True,
        },
        "engines": [{"name": "vsim", "path": "vsim/", "serves_properties": sorted(CLAIMED),
                     "kind_free_text": "deterministic simulation with fault injection: seeded scheduler/fault injector, simulated CAN bus and clock, virtual-time asyncio loop, reference models as oracles, ddmin trace minimisation, exact replay files"}],
        "checks": checks,
        "not_applicable": na,
        "notes": "See DESIGN.md. Exit codes: 0 held / 1 VIOLATION / 2 harness error. known_findings.json lists fixed and known defects.",
    }
    with open(os.path.join(HERE, "MANIFEST.json"), "w") as f:
        json.dump(doc, f, indent=1)
    print("wrote MANIFEST.json with", len(checks), "checks,", len(na), "not applicable")

if __name__ == "__main__":
    main()
